/* C20 — Isolated activities follow the documented formulas: the setters that fix the rate of an isolated activity.
 *  - execution of W flops on a host of speed S = scale*peak with k cores requested: LMM variable with bound k*S and
 *    sharing penalty 1/k, cost W, on the CPU constraint with weight 1; a user bound applies iff 0 < ub < k*S
 *    (so an action alone runs at min(ub, k*S) and takes W / that rate);
 *  - sleep(d): an action of maximum duration d (at least the timing precision when d > 0), marked SLEEPING, whose
 *    variable has penalty 0 (consumes nothing), IGNORED when d is "no maximum";
 *  - communication: rate bound TCP_gamma / (2*latency) when both are > 0, min'd with the user bound; during the
 *    latency phase the variable has penalty 0 and the latency end is scheduled at last_update + latency.
 * Units (real code via cxx2c): CpuCas01::execution_start(double,int,double), CpuCas01Action ctor, CpuCas01::sleep
 * (cpu_cas01.cpp), Action::get_bound, Action::set_max_duration (Action.cpp),
 * NetworkCm02Model::comm_action_set_variable (network_cm02.cpp); one-line accessors extracted and inlined.          */
#include "gen.h"

/* ---------------- harness state -------------------------------------------------------------------------------- */
struct CpuCas01 g_cas;
struct Model g_model; /* the CPU model / the network model's Model base is g_net.__b_NetworkModel.__b_Model */
struct NetworkCm02Model g_net;
struct System g_sys;
struct Constraint g_cnst;
struct Variable g_var; /* the variable System::variable_new hands out */
struct ModifiedSet g_modset;
struct CpuCas01Action g_cpu_action; /* for the constructor harness */
struct NetworkCm02Action g_na;
struct vf_seq_StandardLinkImplP g_route, g_back;
double g_gamma; /* value of the config flag network/TCP-gamma */
#define NET_MODEL (g_net.__b_NetworkModel.__b_Model)
#define NA (g_na.__b_NetworkAction)

/* ghost observers of the assumed callees */
int g_vn_calls; double g_vn_pen, g_vn_bound; struct Action* g_vn_id; unsigned long g_vn_n; struct System* g_vn_sys;
int g_ctor_calls; double g_ctor_cost; _Bool g_ctor_failed; struct Model* g_ctor_model;
int g_exp_calls; struct Constraint* g_exp_cnst; struct Variable* g_exp_var; double g_exp_value;
int g_uvb_calls; double g_uvb_bound;
int g_uvp_calls; double g_uvp_pen;
int g_slu_calls;       /* Action::set_last_update */
int g_state_calls, g_state_arg;
int g_hrm_calls;       /* ActionHeap::remove */
int g_hins_calls; double g_hins_date; int g_hins_type; struct Action* g_hins_action;

#define FIN(x) __CPROVER_isfinited(x)
#define EQ(a, b) __CPROVER_equal(a, b) /* identity of doubles (the recorded value IS the argument) */

struct Model* Resource_T_CpuImpl__get_model(struct Resource_T_CpuImpl* self) __CPROVER_requires(1) __CPROVER_assigns()
    __CPROVER_ensures(__CPROVER_return_value == &g_model);
struct Constraint* Resource_T_CpuImpl__get_constraint(struct Resource_T_CpuImpl* self) __CPROVER_requires(1)
    __CPROVER_assigns() __CPROVER_ensures(__CPROVER_return_value == &g_cnst);
struct ModifiedSet* Model__get_modified_set(struct Model* self) __CPROVER_requires(1) __CPROVER_assigns()
    __CPROVER_ensures(__CPROVER_return_value == &g_modset);
struct CpuImpl* CpuAction__cpu0(struct CpuAction* self) __CPROVER_requires(1) __CPROVER_assigns()
    __CPROVER_ensures(__CPROVER_return_value == &g_cas.__b_CpuImpl);

struct Variable* System__variable_new(struct System* self, struct Action* id, double pen, double bound, unsigned long n)
    __CPROVER_requires(self == &g_sys)
    __CPROVER_assigns(g_vn_calls, g_vn_pen, g_vn_bound, VF_PT(g_vn_id), g_vn_n, g_var.bound_)
    __CPROVER_ensures(__CPROVER_return_value == &g_var && g_vn_calls == __CPROVER_old(g_vn_calls) + 1 &&
                      EQ(g_vn_pen, pen) && EQ(g_vn_bound, bound) && EQ(g_var.bound_, bound) && g_vn_id == id && g_vn_n == n);

void CpuAction__ctor(struct CpuAction* self, struct Model* model, double cost, _Bool failed, struct Variable* var)
    __CPROVER_requires(__CPROVER_rw_ok(self, sizeof(*self)))
    __CPROVER_assigns(self->__b_Action, g_ctor_calls, g_ctor_cost, g_ctor_failed, VF_PT(g_ctor_model))
    __CPROVER_ensures(self->__b_Action.variable_ == var && self->__b_Action.model_ == model &&
                      g_ctor_calls == __CPROVER_old(g_ctor_calls) + 1 && EQ(g_ctor_cost, cost) &&
                      g_ctor_failed == failed && g_ctor_model == model &&
                      !self->__b_Action.modified_set_hook_.linked /* a new object's list hooks are unlinked */);

void System__expand(struct System* self, struct Constraint* c, struct Variable* v, double value, _Bool force)
    __CPROVER_requires(self == &g_sys) __CPROVER_assigns(g_exp_calls, VF_PT(g_exp_cnst), VF_PT(g_exp_var), g_exp_value)
    __CPROVER_ensures(g_exp_calls == __CPROVER_old(g_exp_calls) + 1 && g_exp_cnst == c && g_exp_var == v &&
                      EQ(g_exp_value, value));

void System__update_variable_bound(struct System* self, struct Variable* v, double bound)
    __CPROVER_requires(self == &g_sys && v == &g_var) __CPROVER_assigns(g_uvb_calls, g_uvb_bound, g_var.bound_)
    __CPROVER_ensures(g_uvb_calls == __CPROVER_old(g_uvb_calls) + 1 && EQ(g_uvb_bound, bound) && EQ(g_var.bound_, bound));

void System__update_variable_penalty(struct System* self, struct Variable* v, double pen)
    __CPROVER_requires(self == &g_sys && v == &g_var) __CPROVER_assigns(g_uvp_calls, g_uvp_pen)
    __CPROVER_ensures(g_uvp_calls == __CPROVER_old(g_uvp_calls) + 1 && EQ(g_uvp_pen, pen));

void Action__set_last_update(struct Action* self) __CPROVER_requires(1) __CPROVER_assigns(g_slu_calls)
    __CPROVER_ensures(g_slu_calls == __CPROVER_old(g_slu_calls) + 1);
void CpuAction__set_state(struct CpuAction* self, int state) __CPROVER_requires(1)
    __CPROVER_assigns(g_state_calls, g_state_arg)
    __CPROVER_ensures(g_state_calls == __CPROVER_old(g_state_calls) + 1 && g_state_arg == state);
void ActionHeap__remove(struct ActionHeap* self, struct Action* a) __CPROVER_requires(1) __CPROVER_assigns(g_hrm_calls)
    __CPROVER_ensures(g_hrm_calls == __CPROVER_old(g_hrm_calls) + 1);
void ActionHeap__insert(struct ActionHeap* self, struct Action* a, double date, int type) __CPROVER_requires(1)
    __CPROVER_assigns(g_hins_calls, g_hins_date, g_hins_type, VF_PT(g_hins_action))
    __CPROVER_ensures(g_hins_calls == __CPROVER_old(g_hins_calls) + 1 && EQ(g_hins_date, date) &&
                      g_hins_type == type && g_hins_action == a);
/* config::Flag<double>: operator> compares the flag's value, operator double& yields it */
_Bool Flag_double__operator_gt(struct Flag_double* self, int v) __CPROVER_requires(self == &cfg_tcp_gamma)
    __CPROVER_assigns() __CPROVER_ensures(__CPROVER_return_value == (g_gamma > (double)v));
double* Flag_double__operator_double__(struct Flag_double* self) __CPROVER_requires(self == &cfg_tcp_gamma)
    __CPROVER_assigns() __CPROVER_ensures(__CPROVER_return_value == &g_gamma);

/* ---------------- contracts of the units ------------------------------------------------------------------- */
#define WF_CAS (g_model.maxmin_system_ == &g_sys && g_cas.factor_cpu_cb_.fn == 0)
#define SPEED (g_cas.__b_CpuImpl.speed_.scale * g_cas.__b_CpuImpl.speed_.peak)
#define CPU_ON (g_cas.__b_CpuImpl.__b_Resource_T.__b_Resource.is_on_)
#define GHOSTS0                                                                                                        \
  (g_vn_calls == 0 && g_ctor_calls == 0 && g_exp_calls == 0 && g_uvb_calls == 0 && g_uvp_calls == 0 &&                 \
   g_slu_calls == 0 && g_state_calls == 0 && g_hrm_calls == 0 && g_hins_calls == 0)
#define ALL_GHOSTS                                                                                                     \
  g_vn_calls, g_vn_pen, g_vn_bound, VF_PT(g_vn_id), g_vn_n, g_var.bound_, g_ctor_calls, g_ctor_cost, g_ctor_failed,           \
      VF_PT(g_ctor_model), g_exp_calls, VF_PT(g_exp_cnst), VF_PT(g_exp_var), g_exp_value, g_uvb_calls, g_uvb_bound, g_uvp_calls,            \
      g_uvp_pen, g_slu_calls, g_state_calls, g_state_arg, g_hrm_calls, g_hins_calls, g_hins_date, g_hins_type,         \
      VF_PT(g_hins_action)

/* constructor: bound = cores * speed, penalty = 1 / cores, weight 1 on the CPU constraint */
void CpuCas01Action__ctor(struct CpuCas01Action* self, struct Model* model, double cost, _Bool failed, double speed,
                          struct Constraint* constraint, int requested_core)
    __CPROVER_requires(__CPROVER_is_fresh(self, sizeof(*self)) && model == &g_model && g_model.maxmin_system_ == &g_sys &&
                       constraint == &g_cnst && requested_core >= 1 && FIN(speed) && FIN(cost) && GHOSTS0 && vf_exc == 0)
    __CPROVER_assigns(*self, ALL_GHOSTS)
    __CPROVER_ensures(vf_exc == 0)
    __CPROVER_ensures(g_vn_calls == 1 && g_vn_bound == (double)requested_core * speed &&
                      g_var.bound_ == (double)requested_core * speed) /*@ bound_is_cores_times_speed */
    __CPROVER_ensures(g_vn_pen == 1.0 / (double)requested_core)                        /*@ penalty_is_one_over_cores */
    __CPROVER_ensures(g_vn_id == &self->__b_CpuAction.__b_Action && g_vn_n == 1)
    __CPROVER_ensures(g_ctor_calls == 1 && g_ctor_cost == cost && g_ctor_failed == failed && g_ctor_model == model)
    /*@ cost_is_the_requested_amount */
    __CPROVER_ensures(g_exp_calls == 1 && g_exp_cnst == constraint && g_exp_var == &g_var && g_exp_value == 1.0)
    /*@ uses_the_cpu_constraint_with_weight_one */
    __CPROVER_ensures(self->requested_core_ == requested_core && self->__b_CpuAction.__b_Action.variable_ == &g_var &&
                      self->__b_CpuAction.__b_Action.model_ == model)
    __CPROVER_ensures(g_slu_calls == (g_model.update_algorithm_ == UpdateAlgo__LAZY ? 1 : 0)) /*@ lazy_dates_the_action */
    __CPROVER_ensures(g_uvb_calls == 0 && g_uvp_calls == 0 && g_state_calls == 0 && g_hrm_calls == 0 &&
                      g_hins_calls == 0 && !self->__b_CpuAction.__b_Action.modified_set_hook_.linked)
    /*@ ctor_does_nothing_else */;

/* CpuCas01Action__new = malloc + the constructor above (emitted by cxx2c); seen through the constructor's contract */
#define RET_ACTION ((struct CpuCas01Action*)__CPROVER_return_value)
struct CpuAction* CpuCas01__execution_start(struct CpuCas01* self, double size, int requested_cores, double user_bound)
    __CPROVER_requires(self == &g_cas && WF_CAS && requested_cores >= 1 && FIN(size) && FIN(user_bound) &&
                       FIN(g_cas.__b_CpuImpl.speed_.scale) && FIN(g_cas.__b_CpuImpl.speed_.peak) && FIN(SPEED) &&
                       GHOSTS0 && vf_exc == 0)
    __CPROVER_assigns(ALL_GHOSTS)
    __CPROVER_ensures(vf_exc == 0 && __CPROVER_return_value != NULL)
    __CPROVER_ensures(g_vn_calls == 1 && g_vn_bound == (double)requested_cores * SPEED) /*@ exec_bound_is_cores_times_scale_times_peak */
    __CPROVER_ensures(g_vn_pen == 1.0 / (double)requested_cores) /*@ exec_penalty_is_one_over_cores */
    __CPROVER_ensures(g_ctor_calls == 1 && g_ctor_cost == size && g_ctor_failed == !CPU_ON) /*@ exec_cost_is_size */
    __CPROVER_ensures(g_exp_calls == 1 && g_exp_cnst == &g_cnst && g_exp_var == &g_var && g_exp_value == 1.0)
    /*@ exec_uses_the_cpu_constraint */
    __CPROVER_ensures(g_uvb_calls == ((user_bound > 0.0 && user_bound < (double)requested_cores * SPEED) ? 1 : 0))
    /*@ user_bound_applies_iff_positive_and_below_capacity */
    __CPROVER_ensures(g_uvb_calls == 0 || g_uvb_bound == user_bound) /*@ user_bound_value */
    __CPROVER_ensures(g_var.bound_ == ((user_bound > 0.0 && user_bound < (double)requested_cores * SPEED)
                                           ? user_bound
                                           : (double)requested_cores * SPEED)) /*@ exec_rate_bound_is_min_of_user_bound_and_capacity */
    __CPROVER_ensures(RET_ACTION->__b_CpuAction.__b_Action.user_bound_ == user_bound &&
                      RET_ACTION->__b_CpuAction.__b_Action.variable_ == &g_var && RET_ACTION->requested_core_ == requested_cores)
    __CPROVER_ensures(g_uvp_calls == 0 && g_state_calls == 0) /*@ exec_is_not_suspended */;

/* sleep(d) */
#define MS (g_modset.__b_vf_ilist_Action__modified_set_hook_) /* boost::intrusive::list model of main (capacity VF_ICAP) */
#define SLEEP_DUR (duration > 0.0 ? (duration < sg_precision_timing ? sg_precision_timing : duration) : duration)
struct CpuAction* CpuCas01__sleep(struct CpuCas01* self, double duration)
    __CPROVER_requires(self == &g_cas && WF_CAS && FIN(duration) && NO_MAX_DURATION == VFI_NO_MAX_DURATION && VFI_NO_MAX_DURATION == -1.0 && FIN(sg_precision_timing) && sg_precision_timing > 0.0 &&
                       FIN(g_cas.__b_CpuImpl.speed_.scale) && FIN(g_cas.__b_CpuImpl.speed_.peak) && FIN(SPEED) &&
                       GHOSTS0 && vf_exc == 0 && MS.n < VF_ICAP)
    __CPROVER_assigns(ALL_GHOSTS, __CPROVER_object_whole(&g_modset))
    __CPROVER_ensures(vf_exc == 0 && __CPROVER_return_value != NULL)
    __CPROVER_ensures(RET_ACTION->__b_CpuAction.__b_Action.max_duration_ == SLEEP_DUR) /*@ sleep_lasts_its_duration */
    __CPROVER_ensures(RET_ACTION->__b_CpuAction.__b_Action.suspended_ == SuspendStates__SLEEPING) /*@ sleep_is_sleeping */
    __CPROVER_ensures(g_uvp_calls == 1 && g_uvp_pen == 0.0) /*@ sleep_consumes_nothing */
    __CPROVER_ensures(g_state_calls == (duration == -1.0 ? 1 : 0) && (g_state_calls == 0 || g_state_arg == State__IGNORED))
    /*@ endless_sleep_is_ignored */
    __CPROVER_ensures(g_ctor_calls == 1 && g_ctor_cost == 1.0 && g_vn_calls == 1 && g_vn_pen == 1.0 && g_vn_bound == SPEED)
    /*@ sleep_action_shape */
    __CPROVER_ensures(g_model.update_algorithm_ != UpdateAlgo__LAZY ||
                      (g_hrm_calls >= 1 && MS.n == __CPROVER_old(MS.n) + 1 &&
                       MS.d[0] == &RET_ACTION->__b_CpuAction.__b_Action &&
                       RET_ACTION->__b_CpuAction.__b_Action.modified_set_hook_.linked))
    /*@ lazy_sleep_leaves_heap_and_joins_modified_set */
    __CPROVER_ensures(g_model.update_algorithm_ == UpdateAlgo__LAZY || (g_hrm_calls == 0 && MS.n == __CPROVER_old(MS.n)))
    __CPROVER_ensures(g_uvb_calls == 0);

/* communication variable: penalty, latency event, TCP-gamma bound */
#define GAMMA_BOUND (g_gamma / (2.0 * NA.lat_current_))
#define GAMMA_ON (NA.lat_current_ > 0.0 && g_gamma > 0.0)
#define UB (NA.__b_Action.user_bound_)
void NetworkCm02Model__comm_action_set_variable(struct NetworkCm02Model* self, struct NetworkCm02Action* action,
                                                struct vf_seq_StandardLinkImplP* route,
                                                struct vf_seq_StandardLinkImplP* back_route, _Bool streamed)
    __CPROVER_requires(self == &g_net && action == &g_na && route == &g_route && back_route == &g_back &&
                       NET_MODEL.maxmin_system_ == &g_sys && g_route.n <= 1000 && g_back.n <= 1000 && FIN(NA.latency_) &&
                       FIN(NA.lat_current_) && FIN(UB) && FIN(g_gamma) && FIN(NA.__b_Action.last_update_) && GHOSTS0 &&
                       vf_exc == 0)
    __CPROVER_assigns(VF_PT(NA.__b_Action.variable_), ALL_GHOSTS)
    __CPROVER_ensures(vf_exc == 0 && NA.__b_Action.variable_ == &g_var)
    __CPROVER_ensures(g_vn_calls == 1 && g_vn_id == &NA.__b_Action &&
                      g_vn_n == g_route.n + g_back.n + (streamed ? 4UL : 0UL)) /*@ one_constraint_slot_per_link */
    __CPROVER_ensures(g_vn_pen == (NA.latency_ > 0.0 ? 0.0 : 1.0)) /*@ latency_phase_consumes_nothing */
    __CPROVER_ensures(g_hins_calls == ((NA.latency_ > 0.0 && NET_MODEL.update_algorithm_ == UpdateAlgo__LAZY) ? 1 : 0))
    /*@ latency_end_is_scheduled_iff_latency */
    __CPROVER_ensures(g_hins_calls == 0 ||
                      (g_hins_date == NA.latency_ + NA.__b_Action.last_update_ && g_hins_action == &NA.__b_Action &&
                       g_hins_type == (g_route.n == 0 ? Type__normal : Type__latency)))
    /*@ latency_end_date_is_last_update_plus_latency */
    __CPROVER_ensures(g_uvb_calls == 1)
    __CPROVER_ensures(!(UB < 0.0) || g_uvb_bound == (GAMMA_ON ? GAMMA_BOUND : -1.0))
    /*@ rate_bound_is_gamma_over_twice_latency */
    __CPROVER_ensures(UB < 0.0 || !GAMMA_ON || g_uvb_bound == (GAMMA_BOUND < UB ? GAMMA_BOUND : UB))
    /*@ rate_bound_is_min_of_user_bound_and_gamma_bound */
    __CPROVER_ensures(UB < 0.0 || GAMMA_ON || g_uvb_bound == UB) /*@ rate_bound_is_user_bound_without_gamma */
    __CPROVER_ensures(g_uvp_calls == 0 && g_exp_calls == 0);


/* ---------------- comm_action_set_bounds: min bandwidth over the non-WIFI links, user rate, latency factor ------ */
#ifndef RCAP
#define RCAP 4 /* capacity of the route in the harness state (its length is symbolic); the loop proof is unbounded */
#endif
struct StandardLinkImpl g_links[RCAP];
struct StandardLinkImpl* g_routed[RCAP];
struct vf_set_NetZoneImplP g_zones;
struct Host g_src, g_dst;
double g_bwf, g_latf; /* what get_bandwidth_factor / get_latency_factor return */
double g_minbw;       /* ghost: the minimum bandwidth over the non-WIFI links of the route (pinned by MINBW_OK) */
size_t gk;            /* ghost index: an arbitrary route position */
#define FACTORS (g_net.__b_NetworkModel.__b_NetworkModelFactors)

double NetworkModelFactors__get_bandwidth_factor(struct NetworkModelFactors* self, double size, struct Host* src,
                                                 struct Host* dst, struct vf_seq_LinkP* links, struct vf_set_NetZoneP* zones)
    __CPROVER_requires(self == &FACTORS) __CPROVER_assigns() __CPROVER_ensures(EQ(__CPROVER_return_value, g_bwf));
double NetworkModelFactors__get_latency_factor(struct NetworkModelFactors* self, double size, struct Host* src,
                                               struct Host* dst, struct vf_seq_LinkP* links, struct vf_set_NetZoneP* zones)
    __CPROVER_requires(self == &FACTORS) __CPROVER_assigns() __CPROVER_ensures(EQ(__CPROVER_return_value, g_latf));

/* reached only when a user factor callback is installed (excluded by the precondition below) */
struct Link* StandardLinkImpl__get_iface(struct StandardLinkImpl* self) __CPROVER_requires(1) __CPROVER_assigns()
    __CPROVER_ensures(1);
struct NetZone* NetZoneImpl__get_iface(struct NetZoneImpl* self) __CPROVER_requires(1) __CPROVER_assigns()
    __CPROVER_ensures(1);
#define IS_LINK(p) ((p) == &g_links[0] || (p) == &g_links[1] || (p) == &g_links[2] || (p) == &g_links[3])
#ifdef H_get_bandwidth
/* proved view: the bandwidth of a link is peak * scale */
double StandardLinkImpl__get_bandwidth(struct StandardLinkImpl* self)
    __CPROVER_requires(self == &g_links[0] && FIN(self->bandwidth_.peak) && FIN(self->bandwidth_.scale)) __CPROVER_assigns()
    __CPROVER_ensures(__CPROVER_return_value == self->bandwidth_.peak * self->bandwidth_.scale ||
                      __CPROVER_isnand(self->bandwidth_.peak * self->bandwidth_.scale)) /*@ bandwidth_is_peak_times_scale */;
#else
/* view used by comm_action_set_bounds: the ghost field vf_bw of a link DENOTES its bandwidth peak*scale */
double StandardLinkImpl__get_bandwidth(struct StandardLinkImpl* self) __CPROVER_requires(IS_LINK(self))
    __CPROVER_assigns() __CPROVER_ensures(EQ(__CPROVER_return_value, self->vf_bw));
#endif

#if RCAP != 4
#error "RCAP must be 4 (ALLR/ANYR are written out)"
#endif
#define RN (g_route.n)
#define NONWIFI(k) ((k) < RN && g_links[k].__b_LinkImpl.sharing_policy_ != SharingPolicy__WIFI)
#define BW(k) (g_links[k].vf_bw)
#define ALLR(P) (P(0) && P(1) && P(2) && P(3))
#define ANYR(P) (P(0) || P(1) || P(2) || P(3))
#define BW_POS(k) (FIN(BW(k)) && BW(k) > 0.0)
#define MIN_LE(k) (!NONWIFI(k) || g_minbw <= BW(k))
#define MIN_AT(k) (NONWIFI(k) && g_minbw == BW(k))
#define WIRED(k) (g_routed[k] == &g_links[k])
#define HAS_NONWIFI (ANYR(NONWIFI))
/* g_minbw is the minimum of the statement: below every non-WIFI bandwidth of the route and attained by one */
#define MINBW_OK (ALLR(MIN_LE) && (!HAS_NONWIFI || ANYR(MIN_AT)))
#define B_LINKS (HAS_NONWIFI ? g_minbw : -1.0) /* -1 = unbounded, when the route has no non-WIFI link */
#define R_USER (rate / g_bwf)                    /* the user's rate, increased by the bandwidth factor */

/* loop invariant, for every route position k (written out over the capacity: the proof needs it at the witness of
   the minimum, not at one arbitrary ghost index): a non-WIFI link already visited bounds the running minimum */
#define SEEN(k) ((k) < __i0 && NONWIFI(k))
#define INV_AT(k) (!SEEN(k) || (bandwidth_bound != -1.0 && bandwidth_bound <= BW(k)))
#define VF_LOOP_NetworkCm02Model__comm_action_set_bounds_0                                                             \
  __CPROVER_assigns(__i0, bandwidth_bound)                                                                             \
  __CPROVER_loop_invariant(__r0 == &g_route && __i0 <= RN && vf_exc == 0 &&                                            \
                           (bandwidth_bound == -1.0 || (bandwidth_bound >= g_minbw && ANYR(SEEN))) &&                  \
                           ALLR(INV_AT))                                                                               \
  __CPROVER_decreases(RN - __i0)

void NetworkCm02Model__comm_action_set_bounds(struct NetworkCm02Model* self, struct Host* src, struct Host* dst,
                                              double size, struct NetworkCm02Action* action,
                                              struct vf_seq_StandardLinkImplP* route, struct vf_set_NetZoneImplP* netzones,
                                              double rate)
    __CPROVER_requires(self == &g_net && action == &g_na && route == &g_route && netzones == &g_zones && src == &g_src &&
                       dst == &g_dst && vf_exc == 0 && FACTORS.lat_factor_cb_.fn == 0 && FACTORS.bw_factor_cb_.fn == 0 &&
                       g_route.d == g_routed && g_route.h == 0 && g_route.cap == RCAP && RN <= RCAP && ALLR(WIRED) &&
                       ALLR(BW_POS) && FIN(g_minbw) && MINBW_OK && gk < RCAP && FIN(rate) && FIN(g_bwf) && FIN(g_latf) &&
                       FIN(NA.latency_))
    __CPROVER_assigns(vf_exc, NA.__b_Action.factor_, NA.__b_Action.user_bound_, NA.lat_current_, NA.latency_)
    __CPROVER_ensures((vf_exc == VF_EXC_ABORT) == (g_bwf == 0.0)) /*@ zero_bandwidth_factor_is_rejected */
    __CPROVER_ensures(vf_exc == 0 || vf_exc == VF_EXC_ABORT)
    __CPROVER_ensures(vf_exc != 0 || NA.__b_Action.factor_ == g_bwf) /*@ rate_factor_is_the_bandwidth_factor */
    __CPROVER_ensures(vf_exc != 0 || !(R_USER >= 0.0 && R_USER < B_LINKS) || UB == R_USER)
    /*@ user_rate_over_factor_applies_when_below_the_links */
    __CPROVER_ensures(vf_exc != 0 || (R_USER >= 0.0 && R_USER < B_LINKS) || UB == B_LINKS)
    /*@ bound_is_min_bandwidth_of_non_wifi_links */
    __CPROVER_ensures(vf_exc != 0 || !(gk < RN && NONWIFI(gk)) || UB <= BW(gk)) /*@ bound_below_every_non_wifi_link */
    __CPROVER_ensures(vf_exc != 0 || NA.lat_current_ == __CPROVER_old(NA.latency_)) /*@ current_latency_is_the_raw_latency */
    __CPROVER_ensures(vf_exc != 0 || NA.latency_ == __CPROVER_old(NA.latency_) * g_latf)
    /*@ latency_is_multiplied_by_the_latency_factor */;

#include "gen.c"

/* ---------------- harnesses ---------------------------------------------------------------------------------- */
double nondet_double(void);
int nondet_int(void);
unsigned long nondet_ulong(void);
_Bool nondet_bool(void);

static void setup(void)
{
  g_model.maxmin_system_               = &g_sys;
  g_model.update_algorithm_            = nondet_int();
  NET_MODEL.maxmin_system_             = &g_sys;
  NET_MODEL.update_algorithm_          = nondet_int();
  g_cas.factor_cpu_cb_.fn              = 0;
  g_cas.__b_CpuImpl.speed_.scale       = nondet_double();
  g_cas.__b_CpuImpl.speed_.peak        = nondet_double();
  CPU_ON                               = nondet_bool();
  sg_precision_timing                  = nondet_double();
  g_gamma                              = nondet_double();
  NA.latency_                          = nondet_double();
  NA.lat_current_                      = nondet_double();
  NA.__b_Action.user_bound_            = nondet_double();
  NA.__b_Action.last_update_           = nondet_double();
  g_route.n                            = nondet_ulong();
  g_back.n                             = nondet_ulong();
  g_modset.__b_vf_ilist_Action__modified_set_hook_.n = nondet_ulong();
  vf_exc                               = 0;
}

#ifdef H_ctor
void harness(void)
{
  setup();
  struct CpuCas01Action* a;
  CpuCas01Action__ctor(a, &g_model, nondet_double(), nondet_bool(), nondet_double(), &g_cnst, nondet_int());
  VF_CANARY_POINT;
}
#endif
#ifdef H_execution_start
void harness(void)
{
  setup();
  CpuCas01__execution_start(&g_cas, nondet_double(), nondet_int(), nondet_double());
  VF_CANARY_POINT;
}
#endif
#ifdef H_sleep
void harness(void)
{
  setup();
  CpuCas01__sleep(&g_cas, nondet_double());
  VF_CANARY_POINT;
}
#endif
#ifdef H_comm_set_variable
void harness(void)
{
  setup();
  NetworkCm02Model__comm_action_set_variable(&g_net, &g_na, &g_route, &g_back, nondet_bool());
  VF_CANARY_POINT;
}
#endif

#ifdef H_get_bandwidth
void harness(void)
{
  g_links[0].bandwidth_.peak  = nondet_double();
  g_links[0].bandwidth_.scale = nondet_double();
  StandardLinkImpl__get_bandwidth(&g_links[0]);
  VF_CANARY_POINT;
}
#endif
#ifdef H_comm_set_bounds
size_t nondet_size(void);
void harness(void)
{
  setup();
  for (int k = 0; k < RCAP; k++) {
    g_routed[k]                              = &g_links[k];
    g_links[k].vf_bw                         = nondet_double();
    g_links[k].__b_LinkImpl.sharing_policy_  = nondet_int();
  }
  g_route.d   = g_routed;
  g_route.h   = 0;
  g_route.cap = RCAP;
  g_minbw     = nondet_double();
  g_bwf       = nondet_double();
  g_latf      = nondet_double();
  gk          = nondet_size();
  FACTORS.lat_factor_cb_.fn = 0;
  FACTORS.bw_factor_cb_.fn  = 0;
  NetworkCm02Model__comm_action_set_bounds(&g_net, &g_src, &g_dst, nondet_double(), &g_na, &g_route, &g_zones, nondet_double());
  VF_CANARY_POINT;
}
#endif
