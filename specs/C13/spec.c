/* C13 — Workflow dependencies (include/simgrid/s4u/Activity.hpp).
 * Property: an activity with predecessors starts only after all of them have FINISHED and it is assigned.
 * Mechanism under contract: Activity::start / add_successor / remove_successor / release_dependencies / complete.
 * Abstract view over a universe of NA activities:
 *   SUCC(a)  = the vector a.successors_ (ordered, no duplicate, never contains a)
 *   DEPS(b)  = the set b.dependencies_
 *   LINK     : b in SUCC(a)  <=>  a in DEPS(b)                  (representation invariant, all pairs)
 *   ghost per activity: vf_assigned (result of the virtual is_assigned()), vf_started (# do_start() calls),
 *   vf_vetofired / vf_thisveto (# on_veto signals), vf_completion / vf_thiscompletion (# completion signals).     */
#ifndef NA
#define NA 3 /* activities in the universe (self, the argument, third parties) */
#endif
#define CAP NA /* capacity of every successors_/dependencies_/vetoed array: a list without duplicates over the universe */
#define VF_SEQ_EXACT CAP
#define VF_SET_EXACT CAP
#include "gen.h"

struct Activity g_a0, g_a1, g_a2;
struct Activity *g_succ0[CAP], *g_succ1[CAP], *g_succ2[CAP];
struct Activity *g_dep0[CAP], *g_dep1[CAP], *g_dep2[CAP];
#if NA == 4
struct Activity g_a3;
struct Activity *g_succ3[CAP], *g_dep3[CAP];
#define X4(...) __VA_ARGS__
#elif NA == 3
#define X4(...)
#else
#error "NA must be 3 or 4"
#endif
struct vf_set_ActivityP g_veto; /* the set behind Activity::vetoed_activities_ (when that pointer is not null) */
struct Activity* g_vk[CAP];

/* ghost quantification points: obligations mentioning them hold for every activity / every array position */
struct Activity *gx, *gy;
size_t gk;

#define IS_ACT(p) ((p) == &g_a0 || (p) == &g_a1 || (p) == &g_a2 X4(|| (p) == &g_a3))
#define ALL_ACT(P) (P(0) && P(1) && P(2) X4(&& P(3)))
#define ALL_PAIRS(P)                                                                                                   \
  (P(0, 0) && P(0, 1) && P(0, 2) && P(1, 0) && P(1, 1) && P(1, 2) && P(2, 0) && P(2, 1) && P(2, 2) X4(                 \
      &&P(0, 3) && P(1, 3) && P(2, 3) && P(3, 0) && P(3, 1) && P(3, 2) && P(3, 3)))
#define ANYK3(P, a, b) (P(a, b, 0) || P(a, b, 1) || P(a, b, 2) X4(|| P(a, b, 3)))
#define ALLK3(P, a, b) (P(a, b, 0) && P(a, b, 1) && P(a, b, 2) X4(&& P(a, b, 3)))

/* field selectors by case distinction on the activity pointer (no pointer dereference: cheap for the symbolic executor) */
#define SEL2(p, E, k) ((p) == &g_a0 ? E(0, k) : (p) == &g_a1 ? E(1, k) : X4((p) == &g_a3 ? E(3, k) :) E(2, k))
#define E_SN(i, u) g_a##i.successors_.n
#define E_SE(i, q) g_succ##i[q]
#define E_DN(i, u) g_a##i.dependencies_.n
#define E_DE(i, q) g_dep##i[q]
#define E_OSN(i, u) __CPROVER_old(g_a##i.successors_.n)
#define E_OSE(i, q) __CPROVER_old(g_succ##i[q])
#define E_ODN(i, u) __CPROVER_old(g_a##i.dependencies_.n)
#define E_ODE(i, q) __CPROVER_old(g_dep##i[q])
/* membership, current state (p, x pointers) */
#define SUCC_AT(p, x, q) ((q) < SEL2(p, E_SN, 0) && SEL2(p, E_SE, q) == (x))
#define IN_SUCC(p, x) ANYK3(SUCC_AT, p, x)
#define DEPS_AT(p, x, q) ((q) < SEL2(p, E_DN, 0) && SEL2(p, E_DE, q) == (x))
#define IN_DEPS(p, x) ANYK3(DEPS_AT, p, x)
#define VETO_AT(x, u, q) ((q) < g_veto.n && g_vk[q] == (x))
#define IN_VETO(x) ANYK3(VETO_AT, x, 0)
/* membership at function entry */
#define OSUCC_AT(p, x, q) ((q) < SEL2(p, E_OSN, 0) && SEL2(p, E_OSE, q) == (x))
#define OLD_IN_SUCC(p, x) ANYK3(OSUCC_AT, p, x)
#define ODEPS_AT(p, x, q) ((q) < SEL2(p, E_ODN, 0) && SEL2(p, E_ODE, q) == (x))
#define OLD_IN_DEPS(p, x) ANYK3(ODEPS_AT, p, x)
#define OVETO_AT(x, u, q) ((q) < __CPROVER_old(g_veto.n) && __CPROVER_old(g_vk[q]) == (x))
#define OLD_IN_VETO(x) ANYK3(OVETO_AT, x, 0)

/* structural well-formedness of one activity i: arrays wired, lengths in range, successors in the universe, not the
 * activity itself, pairwise distinct; dependencies in the universe, pairwise distinct (std::set) */
#define S_ELEM(i, k) (!((k) < g_a##i.successors_.n) || (IS_ACT(g_succ##i[k]) && g_succ##i[k] != &g_a##i))
#define S_DIFF(i, k, l) (!((l) < g_a##i.successors_.n) || g_succ##i[k] != g_succ##i[l])
#define D_ELEM(i, k) (!((k) < g_a##i.dependencies_.n) || IS_ACT(g_dep##i[k]))
#define D_DIFF(i, k, l) (!((l) < g_a##i.dependencies_.n) || g_dep##i[k] != g_dep##i[l])
#define WF_SUCC(i)                                                                                                     \
  (g_a##i.successors_.d == g_succ##i && g_a##i.successors_.h == 0 && g_a##i.successors_.cap == CAP &&                  \
   g_a##i.successors_.n <= CAP && S_ELEM(i, 0) && S_ELEM(i, 1) && S_ELEM(i, 2) && S_DIFF(i, 0, 1) && S_DIFF(i, 0, 2) && \
   S_DIFF(i, 1, 2) X4(&& S_ELEM(i, 3) && S_DIFF(i, 0, 3) && S_DIFF(i, 1, 3) && S_DIFF(i, 2, 3)))
#define WF_DEPS(i)                                                                                                     \
  (g_a##i.dependencies_.k == g_dep##i && g_a##i.dependencies_.cap == CAP && g_a##i.dependencies_.n <= CAP &&           \
   D_ELEM(i, 0) && D_ELEM(i, 1) && D_ELEM(i, 2) && D_DIFF(i, 0, 1) && D_DIFF(i, 0, 2) &&                                \
   D_DIFF(i, 1, 2) X4(&& D_ELEM(i, 3) && D_DIFF(i, 0, 3) && D_DIFF(i, 1, 3) && D_DIFF(i, 2, 3)))
#define WF_ALL_SUCC ALL_ACT(WF_SUCC)
#define WF_ALL_DEPS ALL_ACT(WF_DEPS)
#define V_ELEM(k) (!((k) < g_veto.n) || IS_ACT(g_vk[k]))
#define V_DIFF(k, l) (!((l) < g_veto.n) || g_vk[k] != g_vk[l])
#define WF_VETO                                                                                                        \
  ((vetoed_activities_ == NULL || vetoed_activities_ == &g_veto) && g_veto.k == g_vk && g_veto.cap == CAP &&           \
   g_veto.n <= CAP && V_ELEM(0) && V_ELEM(1) && V_ELEM(2) && V_DIFF(0, 1) && V_DIFF(0, 2) &&                            \
   V_DIFF(1, 2) X4(&& V_ELEM(3) && V_DIFF(0, 3) && V_DIFF(1, 3) && V_DIFF(2, 3)))
#define WF_STRUCT (WF_ALL_SUCC && WF_ALL_DEPS && WF_VETO)
/* the invariant of the property: j in SUCC(i) <=> i in DEPS(j), for every pair */
#define LINK(i, j) (IN_SUCC(&g_a##i, &g_a##j) == IN_DEPS(&g_a##j, &g_a##i))
#define LINK_ALL ALL_PAIRS(LINK)
/* ghost counters stay far from INT_MAX */
#define CNT_OK(i)                                                                                                      \
  (0 <= g_a##i.vf_started && g_a##i.vf_started < 1000 && 0 <= g_a##i.vf_vetofired && g_a##i.vf_vetofired < 1000 &&    \
   0 <= g_a##i.vf_thisveto && g_a##i.vf_thisveto < 1000)
#define CNT_ALL ALL_ACT(CNT_OK)
#define CNT2_OK(i)                                                                                                     \
  (0 <= g_a##i.vf_completion && g_a##i.vf_completion < 1000 && 0 <= g_a##i.vf_thiscompletion &&                       \
   g_a##i.vf_thiscompletion < 1000)
#define CNT2_ALL ALL_ACT(CNT2_OK)

/* ---------------- assumed contracts of the virtual callees (listed in check.json) ------------------------------- */
_Bool Activity__is_assigned(struct Activity* self) __CPROVER_requires(IS_ACT(self)) __CPROVER_assigns()
    __CPROVER_ensures(__CPROVER_return_value == self->vf_assigned);
struct Activity* Activity__do_start(struct Activity* self)
    __CPROVER_requires(IS_ACT(self) && self->vf_started < 2000) __CPROVER_assigns(self->state_, self->vf_started)
    __CPROVER_ensures(self->vf_started == __CPROVER_old(self->vf_started) + 1);
void Activity__fire_on_veto(struct Activity* self) __CPROVER_requires(IS_ACT(self) && self->vf_vetofired < 2000)
    __CPROVER_assigns(self->vf_vetofired)
    __CPROVER_ensures(self->vf_vetofired == __CPROVER_old(self->vf_vetofired) + 1);
void Activity__fire_on_this_veto(struct Activity* self) __CPROVER_requires(IS_ACT(self) && self->vf_thisveto < 2000)
    __CPROVER_assigns(self->vf_thisveto) __CPROVER_ensures(self->vf_thisveto == __CPROVER_old(self->vf_thisveto) + 1);
void Activity__fire_on_completion(struct Activity* self)
    __CPROVER_requires(IS_ACT(self) && self->vf_completion < 2000) __CPROVER_assigns(self->vf_completion)
    __CPROVER_ensures(self->vf_completion == __CPROVER_old(self->vf_completion) + 1);
void Activity__fire_on_this_completion(struct Activity* self)
    __CPROVER_requires(IS_ACT(self) && self->vf_thiscompletion < 2000) __CPROVER_assigns(self->vf_thiscompletion)
    __CPROVER_ensures(self->vf_thiscompletion == __CPROVER_old(self->vf_thiscompletion) + 1);

/* ---------------- contracts of the units -------------------------------------------------------------------------- */
_Bool Activity__dependencies_solved(struct Activity* self) __CPROVER_requires(IS_ACT(self) && WF_ALL_DEPS)
    __CPROVER_assigns() __CPROVER_ensures(__CPROVER_return_value == (self->dependencies_.n == 0))
    /*@ solved_iff_no_pending_dependency */;

/* start: do_start() runs iff no dependency is pending AND the activity is assigned; otherwise the activity is vetoed
 * (veto signals fired once, inserted in the veto set when there is one) and do_start() is NOT called */
#define RUNNABLE(p) ((p)->dependencies_.n == 0 && (p)->vf_assigned)
#define START_VETO(i)                                                                                                  \
  (IN_VETO(&g_a##i) == (OLD_IN_VETO(&g_a##i) || (&g_a##i == self && !RUNNABLE(self) && vetoed_activities_ != NULL)))
void Activity__start(struct Activity* self)
    __CPROVER_requires(IS_ACT(self) && WF_ALL_DEPS && WF_VETO && vf_exc == 0 && 0 <= self->vf_started &&
                       self->vf_started < 1500 && 0 <= self->vf_vetofired && self->vf_vetofired < 1500 &&
                       0 <= self->vf_thisveto && self->vf_thisveto < 1500)
    __CPROVER_assigns(self->state_, self->vf_started, self->vf_vetofired, self->vf_thisveto, g_veto.n,
                      __CPROVER_object_whole(g_vk))
    __CPROVER_ensures(vf_exc == 0)
    __CPROVER_ensures(self->vf_started == __CPROVER_old(self->vf_started) + (RUNNABLE(self) ? 1 : 0))
    /*@ start_runs_iff_dependencies_solved_and_assigned */
    __CPROVER_ensures(self->vf_vetofired == __CPROVER_old(self->vf_vetofired) + (RUNNABLE(self) ? 0 : 1) &&
                      self->vf_thisveto == __CPROVER_old(self->vf_thisveto) + (RUNNABLE(self) ? 0 : 1))
    /*@ start_vetoed_otherwise */
    __CPROVER_ensures(ALL_ACT(START_VETO)) /*@ start_veto_set_gains_exactly_the_vetoed_activity */
    __CPROVER_ensures(RUNNABLE(self) || self->state_ == State__STARTING) /*@ start_vetoed_is_STARTING */
    __CPROVER_ensures(WF_VETO) /*@ start_keeps_veto_set_wf */;

/* add_successor(a): rejected iff a is this activity or already a successor; otherwise appended at the end of
 * successors_ and this activity joins a's dependencies; LINK is preserved */
void Activity__add_successor(struct Activity* self, struct Activity* a)
    __CPROVER_requires(IS_ACT(self) && IS_ACT(a) && WF_STRUCT && LINK_ALL && vf_exc == 0)
    __CPROVER_assigns(vf_exc, self->successors_.n, __CPROVER_object_whole(self->successors_.d), a->dependencies_.n,
                      __CPROVER_object_whole(a->dependencies_.k))
    __CPROVER_ensures((vf_exc == VF_EXC_invalid_argument) == (a == self || OLD_IN_SUCC(self, a)))
    /*@ add_rejects_self_and_duplicates */
    __CPROVER_ensures(vf_exc == 0 || vf_exc == VF_EXC_invalid_argument)
    __CPROVER_ensures(vf_exc != 0 || (self->successors_.n == __CPROVER_old(self->successors_.n) + 1 &&
                                      self->successors_.d[__CPROVER_old(self->successors_.n)] == a))
    /*@ add_appends_a_to_successors */
    __CPROVER_ensures(vf_exc != 0 || !(gk < __CPROVER_old(self->successors_.n)) ||
                      self->successors_.d[gk] == __CPROVER_old(self->successors_.d[gk]))
    /*@ add_keeps_the_other_successors_in_place */
    __CPROVER_ensures(vf_exc != 0 || IN_DEPS(a, gx) == (OLD_IN_DEPS(a, gx) || gx == self))
    /*@ add_dependencies_of_a_gain_exactly_this */
    __CPROVER_ensures(vf_exc == 0 ||
                      (self->successors_.n == __CPROVER_old(self->successors_.n) &&
                       a->dependencies_.n == __CPROVER_old(a->dependencies_.n) &&
                       (!(gk < self->successors_.n) || self->successors_.d[gk] == __CPROVER_old(self->successors_.d[gk])) &&
                       IN_DEPS(a, gx) == OLD_IN_DEPS(a, gx)))
    /*@ add_rejected_changes_nothing */
    __CPROVER_ensures(WF_STRUCT) /*@ add_keeps_wf */
    __CPROVER_ensures(LINK_ALL)  /*@ add_keeps_link_invariant */;

#define AS_ENV ((struct Activity__add_successor__lambda0_env*)f.env)
#define AS_NOMATCH(u, v, k) (!((k) < i) || b[k] != AS_ENV->a)
#define VF_LOOP_Activity__add_successor__any_of0_0                                                                     \
  __CPROVER_assigns(i) __CPROVER_loop_invariant(i <= cnt && ALLK3(AS_NOMATCH, 0, 0)) __CPROVER_decreases(cnt - i)

/* remove_successor(a): rejected iff a is this activity or not a successor; otherwise a leaves successors_ (order of
 * the others kept) and this activity leaves a's dependencies; LINK is preserved */
#define RS_OLDPOS(k) ((k) < __CPROVER_old(self->successors_.n) && __CPROVER_old(self->successors_.d[k]) == a)
#define RS_KEEP(k) (!((k) < gk) || self->successors_.d[k] == __CPROVER_old(self->successors_.d[k]))
#define RS_SHIFT(k)                                                                                                    \
  (!(gk <= (k) && (k) < self->successors_.n) || self->successors_.d[k] == __CPROVER_old(self->successors_.d[(k) + 1]))
void Activity__remove_successor(struct Activity* self, struct Activity* a)
    __CPROVER_requires(IS_ACT(self) && IS_ACT(a) && WF_STRUCT && LINK_ALL && vf_exc == 0)
    __CPROVER_assigns(vf_exc, self->successors_.n, __CPROVER_object_whole(self->successors_.d), a->dependencies_.n,
                      __CPROVER_object_whole(a->dependencies_.k))
    __CPROVER_ensures((vf_exc == VF_EXC_invalid_argument) == (a == self || !OLD_IN_SUCC(self, a)))
    /*@ remove_rejects_self_and_non_successors */
    __CPROVER_ensures(vf_exc == 0 || vf_exc == VF_EXC_invalid_argument)
    __CPROVER_ensures(vf_exc != 0 || (self->successors_.n == __CPROVER_old(self->successors_.n) - 1 && !IN_SUCC(self, a)))
    /*@ remove_takes_a_out_of_successors */
    __CPROVER_ensures(vf_exc != 0 || !RS_OLDPOS(gk) ||
                      (RS_KEEP(0) && RS_KEEP(1) && RS_KEEP(2) && RS_SHIFT(0) && RS_SHIFT(1) X4(&& RS_KEEP(3) && RS_SHIFT(2))))
    /*@ remove_keeps_order_of_the_other_successors */
    __CPROVER_ensures(vf_exc != 0 || IN_DEPS(a, gx) == (OLD_IN_DEPS(a, gx) && gx != self))
    /*@ remove_dependencies_of_a_lose_exactly_this */
    __CPROVER_ensures(vf_exc == 0 ||
                      (self->successors_.n == __CPROVER_old(self->successors_.n) &&
                       a->dependencies_.n == __CPROVER_old(a->dependencies_.n) &&
                       (!(gk < self->successors_.n) || self->successors_.d[gk] == __CPROVER_old(self->successors_.d[gk])) &&
                       IN_DEPS(a, gx) == OLD_IN_DEPS(a, gx)))
    /*@ remove_rejected_changes_nothing */
    __CPROVER_ensures(WF_STRUCT) /*@ remove_keeps_wf */
    __CPROVER_ensures(LINK_ALL)  /*@ remove_keeps_link_invariant */;

#define RS_ENV ((struct Activity__remove_successor__lambda0_env*)f.env)
#define RS_NOMATCH(u, v, k) (!((k) < i) || b[k] != RS_ENV->a)
#define VF_LOOP_Activity__remove_successor__find_if0_0                                                                 \
  __CPROVER_assigns(i) __CPROVER_loop_invariant(i <= cnt && ALLK3(RS_NOMATCH, 0, 0)) __CPROVER_decreases(cnt - i)

/* release_dependencies (runs when this activity FINISHED): successors_ is emptied, this activity leaves the
 * dependencies of every former successor and of nobody else, no other dependency moves; start() ran exactly on the
 * former successors whose dependency set became empty: do_start() once if assigned, vetoed once otherwise; nobody else
 * is started */
#define RELEASED(y) (OLD_IN_SUCC(self, y) && (y)->dependencies_.n == 0)
#define ALL_STATE_TARGETS(F) g_a0.F, g_a1.F, g_a2.F X4(, g_a3.F)
void Activity__release_dependencies(struct Activity* self)
    __CPROVER_requires(IS_ACT(self) && WF_STRUCT && LINK_ALL && CNT_ALL && vf_exc == 0)
    __CPROVER_assigns(self->successors_.n, ALL_STATE_TARGETS(dependencies_.n), __CPROVER_object_whole(g_dep0),
                      __CPROVER_object_whole(g_dep1), __CPROVER_object_whole(g_dep2) X4(, __CPROVER_object_whole(g_dep3)),
                      ALL_STATE_TARGETS(state_), ALL_STATE_TARGETS(vf_started), ALL_STATE_TARGETS(vf_vetofired),
                      ALL_STATE_TARGETS(vf_thisveto), g_veto.n, __CPROVER_object_whole(g_vk))
    __CPROVER_ensures(vf_exc == 0)
    __CPROVER_ensures(self->successors_.n == 0) /*@ release_empties_successors */
    __CPROVER_ensures(IN_DEPS(gy, gx) == (OLD_IN_DEPS(gy, gx) && !(gx == self && OLD_IN_SUCC(self, gy))))
    /*@ release_removes_this_from_every_former_successor_and_nothing_else */
    __CPROVER_ensures(gy->vf_started == __CPROVER_old(gy->vf_started) + ((RELEASED(gy) && gy->vf_assigned) ? 1 : 0))
    /*@ release_starts_exactly_the_successors_with_no_dependency_left */
    __CPROVER_ensures(gy->vf_vetofired == __CPROVER_old(gy->vf_vetofired) + ((RELEASED(gy) && !gy->vf_assigned) ? 1 : 0) &&
                      gy->vf_thisveto == __CPROVER_old(gy->vf_thisveto) + ((RELEASED(gy) && !gy->vf_assigned) ? 1 : 0))
    /*@ release_vetoes_exactly_the_unassigned_released_successors */
    __CPROVER_ensures(IN_VETO(gy) ==
                      (OLD_IN_VETO(gy) || (RELEASED(gy) && !gy->vf_assigned && vetoed_activities_ != NULL)))
    /*@ release_veto_set_exact */
    __CPROVER_ensures(RELEASED(gy) || gy->state_ == __CPROVER_old(gy->state_)) /*@ release_keeps_state_of_the_others */
    __CPROVER_ensures(self->state_ == __CPROVER_old(self->state_))              /*@ release_keeps_own_state */
    __CPROVER_ensures(WF_STRUCT) /*@ release_keeps_wf */
    __CPROVER_ensures(LINK_ALL)  /*@ release_keeps_link_invariant */;

/* loop 0 of release_dependencies: positions [n, n0) of successors_ have been processed */
#define LE(e) __CPROVER_loop_entry(e)
#define E_LSN(i, u) LE(g_a##i.successors_.n)
#define FORMER_AT(y, u, q) (SEL2(self, E_SN, 0) <= (q) && (q) < SEL2(self, E_LSN, 0) && SEL2(self, E_SE, q) == (y))
#define FORMER(y) ANYK3(FORMER_AT, y, 0)
#define LEDEPS_AT(j, x, k) ((k) < LE(g_a##j.dependencies_.n) && LE(g_dep##j[k]) == (x))
#define LE_IN_DEPS(j, x) ANYK3(LEDEPS_AT, j, x)
#define LEVETO_AT(x, u, k) ((k) < LE(g_veto.n) && LE(g_vk[k]) == (x))
#define LE_IN_VETO(x) ANYK3(LEVETO_AT, x, 0)
#define DONE(j) (FORMER(&g_a##j) && g_a##j.dependencies_.n == 0)
#define INV_D(j, i)                                                                                                    \
  (IN_DEPS(&g_a##j, &g_a##i) == ((&g_a##i == self) ? IN_SUCC(self, &g_a##j) : LE_IN_DEPS(j, &g_a##i)))
#define INV_C(j)                                                                                                       \
  (g_a##j.vf_started == LE(g_a##j.vf_started) + ((DONE(j) && g_a##j.vf_assigned) ? 1 : 0) &&                           \
   g_a##j.vf_vetofired == LE(g_a##j.vf_vetofired) + ((DONE(j) && !g_a##j.vf_assigned) ? 1 : 0) &&                      \
   g_a##j.vf_thisveto == LE(g_a##j.vf_thisveto) + ((DONE(j) && !g_a##j.vf_assigned) ? 1 : 0) &&                        \
   IN_VETO(&g_a##j) == (LE_IN_VETO(&g_a##j) || (DONE(j) && !g_a##j.vf_assigned && vetoed_activities_ != NULL)) &&       \
   (DONE(j) || g_a##j.state_ == LE(g_a##j.state_)))
#define VF_LOOP_Activity__release_dependencies_0                                                                       \
  __CPROVER_assigns(self->successors_.n, ALL_STATE_TARGETS(dependencies_.n), __CPROVER_object_whole(g_dep0),           \
                    __CPROVER_object_whole(g_dep1), __CPROVER_object_whole(g_dep2) X4(, __CPROVER_object_whole(g_dep3)), \
                    ALL_STATE_TARGETS(state_), ALL_STATE_TARGETS(vf_started), ALL_STATE_TARGETS(vf_vetofired),         \
                    ALL_STATE_TARGETS(vf_thisveto), g_veto.n, __CPROVER_object_whole(g_vk))                            \
      __CPROVER_loop_invariant(SEL2(self, E_SN, 0) <= SEL2(self, E_LSN, 0) && vf_exc == 0 && WF_ALL_DEPS && WF_VETO && \
                               ALL_PAIRS(INV_D) && ALL_ACT(INV_C)) __CPROVER_decreases(self->successors_.n)

/* complete(state): the state is recorded, both completion signals fire once; successors are released iff the
 * state is FINISHED (a FAILED / CANCELED predecessor never lets a successor start) */
void Activity__complete(struct Activity* self, int state)
    __CPROVER_requires(IS_ACT(self) && WF_STRUCT && LINK_ALL && CNT_ALL && CNT2_ALL && vf_exc == 0)
    __CPROVER_assigns(self->successors_.n, ALL_STATE_TARGETS(dependencies_.n), __CPROVER_object_whole(g_dep0),
                      __CPROVER_object_whole(g_dep1), __CPROVER_object_whole(g_dep2) X4(, __CPROVER_object_whole(g_dep3)),
                      ALL_STATE_TARGETS(state_), ALL_STATE_TARGETS(vf_started), ALL_STATE_TARGETS(vf_vetofired),
                      ALL_STATE_TARGETS(vf_thisveto), g_veto.n, __CPROVER_object_whole(g_vk), self->vf_completion,
                      self->vf_thiscompletion)
    __CPROVER_ensures(vf_exc == 0)
    __CPROVER_ensures(self->state_ == state) /*@ complete_records_state */
    __CPROVER_ensures(self->vf_completion == __CPROVER_old(self->vf_completion) + 1 &&
                      self->vf_thiscompletion == __CPROVER_old(self->vf_thiscompletion) + 1)
    /*@ complete_fires_completion_signals_once */
    __CPROVER_ensures(state == State__FINISHED ||
                      (self->successors_.n == __CPROVER_old(self->successors_.n) &&
                       IN_DEPS(gy, gx) == OLD_IN_DEPS(gy, gx) && gy->vf_started == __CPROVER_old(gy->vf_started) &&
                       gy->vf_vetofired == __CPROVER_old(gy->vf_vetofired)))
    /*@ complete_unfinished_predecessor_releases_nobody */
    __CPROVER_ensures(state != State__FINISHED ||
                      (self->successors_.n == 0 &&
                       IN_DEPS(gy, gx) == (OLD_IN_DEPS(gy, gx) && !(gx == self && OLD_IN_SUCC(self, gy))) &&
                       gy->vf_started == __CPROVER_old(gy->vf_started) + ((RELEASED(gy) && gy->vf_assigned) ? 1 : 0)))
    /*@ complete_finished_releases_successors_and_starts_the_ready_ones */
    __CPROVER_ensures(WF_STRUCT) /*@ complete_keeps_wf */
    __CPROVER_ensures(LINK_ALL)  /*@ complete_keeps_link_invariant */;

#include "gen.c"

/* ---------------- harnesses -------------------------------------------------------------------------------------- */
int nondet_int(void);
_Bool nondet_bool(void);

static struct Activity* pick(void)
{
  int i = nondet_int();
  __CPROVER_assume(0 <= i && i < NA);
  return i == 0 ? &g_a0 : i == 1 ? &g_a1 : X4(i == 3 ? &g_a3 :) & g_a2;
}

#define WIRE(i)                                                                                                        \
  g_a##i.successors_.d    = g_succ##i;                                                                                 \
  g_a##i.successors_.h    = 0;                                                                                         \
  g_a##i.successors_.cap  = CAP;                                                                                       \
  g_a##i.dependencies_.k  = g_dep##i;                                                                                  \
  g_a##i.dependencies_.cap = CAP;                                                                                      \
  for (int k = 0; k < CAP; k++) {                                                                                      \
    g_succ##i[k] = pick();                                                                                             \
    g_dep##i[k]  = pick();                                                                                             \
  }

static void setup(void)
{
  WIRE(0) WIRE(1) WIRE(2) X4(WIRE(3))
  g_veto.k   = g_vk;
  g_veto.cap = CAP;
  for (int k = 0; k < CAP; k++)
    g_vk[k] = pick();
  vetoed_activities_ = nondet_bool() ? NULL : &g_veto;
  vf_exc             = 0;
  gx                 = pick();
  gy                 = pick();
  __CPROVER_assume(gk < CAP);
}

#ifdef H_solved
void harness(void)
{
  setup();
  Activity__dependencies_solved(pick());
  VF_CANARY_POINT;
}
#endif
#ifdef H_start
void harness(void)
{
  setup();
  Activity__start(pick());
  VF_CANARY_POINT;
}
#endif
#ifdef H_add_successor
void harness(void)
{
  setup();
  Activity__add_successor(pick(), pick());
  VF_CANARY_POINT;
}
#endif
#ifdef H_remove_successor
void harness(void)
{
  setup();
  Activity__remove_successor(pick(), pick());
  VF_CANARY_POINT;
}
#endif
#ifdef H_release
void harness(void)
{
  setup();
  Activity__release_dependencies(pick());
  VF_CANARY_POINT;
}
#endif
#ifdef H_complete
void harness(void)
{
  setup();
  Activity__complete(pick(), nondet_int());
  VF_CANARY_POINT;
}
#endif
