/* C12 — Timed waits (src/kernel/activity/ActivityImpl.cpp): wait_for and its timeout callback, wait_any_for and its
 * timeout callback, register_simcall / unregister_simcall.
 * Property: wait_for(t) times out exactly t after the call iff the activity has not completed by then, a completion AT
 * the deadline counting as completed; wait_any_for(t) returns an already completed activity if there is one, else
 * returns at the deadline.
 * Abstract view: WAITERS(v) = the deque v.simcalls_; WS(p) = p.waiting_synchros_; timers = ghost log of Timer::set
 * (number of calls, date, callback function and its captured values); ghost counters vf_finished (ActivityImpl::finish
 * calls), vf_answered (ActorImpl::simcall_answer calls), g_result_* (observer->set_result calls).                   */
#define NV 3 /* activities */
#define SC 4 /* capacity of every simcalls_ array  */
#define WC 4 /* capacity of every waiting_synchros_ array */
#define VF_SEQ_EXACT 4
#include "gen.h"

struct ActorImpl g_p0, g_p1;
struct ActivityImpl *g_ws0[WC], *g_ws1[WC];
struct ActivityImpl g_v0, g_v1, g_v2;
struct Simcall *g_sc0[SC], *g_sc1[SC], *g_sc2[SC];
struct Action g_ma0, g_ma1, g_ma2;
struct SimcallObserver g_ob0, g_ob1;      /* the observers of the two actors' simcalls, as seen through the base class */
struct ActivityWaitSimcall g_obs_wait;    /* what dynamic_cast<ActivityWaitSimcall*> yields when it succeeds */
struct ActivityWaitanySimcall g_obs_any;  /* same for ActivityWaitanySimcall */
_Bool g_is_wait_obs, g_is_any_obs;        /* dynamic type of the issuer's observer (ghost) */
struct Timer g_timer;                     /* the timer Timer::set returns */
struct ActivityImpl* g_av[NV];            /* storage of the `activities` vector of wait_any_for */
struct vf_seq_ActivityImplP g_acts;

double g_clock;                            /* s4u::Engine::get_clock() */
int g_mc, g_replay;                        /* MC_is_active(), MC_record_replay_is_active() */
int g_set_calls;                           /* Timer::set log */
double g_set_date;
vf_fnptr g_set_fn;
void *g_set_cap0, *g_set_cap1;
int g_result_calls;                        /* DelayedSimcallObserver<bool>::set_result log */
_Bool g_result_val;
void* g_result_obj;
int g_lresult_calls;                       /* DelayedSimcallObserver<long>::set_result log */
long g_lresult_val;
size_t gk;                                 /* ghost index */

#define IS_ACTOR(p) ((p) == &g_p0 || (p) == &g_p1)
#define IS_ACTV(v) ((v) == &g_v0 || (v) == &g_v1 || (v) == &g_v2)
#define IS_SIMCALL(s) ((s) == &g_p0.simcall_ || (s) == &g_p1.simcall_)
#define FINISHED_STATE(s) ((s) != State__WAITING && (s) != State__RUNNING)

#define WF_V(i)                                                                                                        \
  (g_v##i.simcalls_.d == g_sc##i && g_v##i.simcalls_.h == 0 && g_v##i.simcalls_.cap == SC && g_v##i.simcalls_.n <= SC && \
   (g_v##i.model_action_ == NULL || g_v##i.model_action_ == &g_ma##i) && 0 <= g_v##i.vf_finished &&                    \
   g_v##i.vf_finished < 1000 && (!(0 < g_v##i.simcalls_.n) || IS_SIMCALL(g_sc##i[0])) &&                               \
   (!(1 < g_v##i.simcalls_.n) || IS_SIMCALL(g_sc##i[1])) && (!(2 < g_v##i.simcalls_.n) || IS_SIMCALL(g_sc##i[2])) &&   \
   (!(3 < g_v##i.simcalls_.n) || IS_SIMCALL(g_sc##i[3])))
#define WF_P(i)                                                                                                        \
  (g_p##i.waiting_synchros_.d == g_ws##i && g_p##i.waiting_synchros_.h == 0 && g_p##i.waiting_synchros_.cap == WC &&   \
   g_p##i.waiting_synchros_.n <= WC && g_p##i.simcall_.issuer_ == &g_p##i && g_p##i.simcall_.observer_ == &g_ob##i &&  \
   (g_p##i.simcall_.timeout_cb_ == NULL || g_p##i.simcall_.timeout_cb_ == &g_timer) && 0 <= g_p##i.vf_answered &&      \
   g_p##i.vf_answered < 1000)
#define WF (WF_V(0) && WF_V(1) && WF_V(2) && WF_P(0) && WF_P(1))
/* model capacity: room for one more waiter / waited synchro (bounded by model capacity, see check.json) */
#define ROOM(v, p) ((v)->simcalls_.n < SC && (p)->waiting_synchros_.n < WC)
/* number of entries of activity v's waiters that are the simcall s (now / at entry) */
#define CNT_AT(v, s, k) (((k) < (v)->simcalls_.n && (v)->simcalls_.d[k] == (s)) ? 1 : 0)
#define CNT(v, s) (CNT_AT(v, s, 0) + CNT_AT(v, s, 1) + CNT_AT(v, s, 2) + CNT_AT(v, s, 3))
#define OCNT_AT(v, s, k) (((k) < __CPROVER_old((v)->simcalls_.n) && __CPROVER_old((v)->simcalls_.d[k]) == (s)) ? 1 : 0)
#define OCNT(v, s) (OCNT_AT(v, s, 0) + OCNT_AT(v, s, 1) + OCNT_AT(v, s, 2) + OCNT_AT(v, s, 3))
#define LOGS_OK                                                                                                        \
  (0 <= g_set_calls && g_set_calls < 1000 && 0 <= g_result_calls && g_result_calls < 1000 && 0 <= g_lresult_calls &&   \
   g_lresult_calls < 1000)

/* ---------------- assumed contracts of callees outside C12 (listed in check.json) --------------------------------- */
double Engine__get_clock(void) __CPROVER_requires(1) __CPROVER_assigns() __CPROVER_ensures(__CPROVER_return_value == g_clock);
int MC_is_active(void) __CPROVER_requires(1) __CPROVER_assigns() __CPROVER_ensures(__CPROVER_return_value == g_mc);
int MC_record_replay_is_active(void) __CPROVER_requires(1) __CPROVER_assigns()
    __CPROVER_ensures(__CPROVER_return_value == g_replay);
int Action__get_state(struct Action* self)
    __CPROVER_requires(self == &g_ma0 || self == &g_ma1 || self == &g_ma2) __CPROVER_assigns()
    __CPROVER_ensures(__CPROVER_return_value == self->vf_state);
void ActivityImpl__finish(struct ActivityImpl* self) __CPROVER_requires(IS_ACTV(self) && self->vf_finished < 2000)
    __CPROVER_assigns(self->vf_finished) __CPROVER_ensures(self->vf_finished == __CPROVER_old(self->vf_finished) + 1);
void ActorImpl__simcall_answer(struct ActorImpl* self) __CPROVER_requires(IS_ACTOR(self) && self->vf_answered < 2000)
    __CPROVER_assigns(self->vf_answered) __CPROVER_ensures(self->vf_answered == __CPROVER_old(self->vf_answered) + 1);
struct ActivityWaitSimcall* vf_dyncast_SimcallObserver_to_ActivityWaitSimcall(struct SimcallObserver* o)
    __CPROVER_requires(o == &g_ob0 || o == &g_ob1) __CPROVER_assigns()
    __CPROVER_ensures(__CPROVER_return_value == (g_is_wait_obs ? &g_obs_wait : NULL));
struct ActivityWaitanySimcall* vf_dyncast_SimcallObserver_to_ActivityWaitanySimcall(struct SimcallObserver* o)
    __CPROVER_requires(o == &g_ob0 || o == &g_ob1) __CPROVER_assigns()
    __CPROVER_ensures(__CPROVER_return_value == (g_is_any_obs ? &g_obs_any : NULL));
void DelayedSimcallObserver_bool__set_result(struct DelayedSimcallObserver_bool* self, _Bool v)
    __CPROVER_requires(g_result_calls < 2000) __CPROVER_assigns(g_result_calls, g_result_val, g_result_obj)
    __CPROVER_ensures(g_result_calls == __CPROVER_old(g_result_calls) + 1 && g_result_val == v &&
                      g_result_obj == (void*)self);
void DelayedSimcallObserver_long__set_result(struct DelayedSimcallObserver_long* self, long v)
    __CPROVER_requires(g_lresult_calls < 2000) __CPROVER_assigns(g_lresult_calls, g_lresult_val)
    __CPROVER_ensures(g_lresult_calls == __CPROVER_old(g_lresult_calls) + 1 && g_lresult_val == v);
/* Timer::set(date, callback): one timer is created for `date`; the log keeps the date, the callback and what it captured */
#define WF_ENV(cb) ((struct ActivityImpl__wait_for__lambda0_env*)(cb).env)
#define WA_ENV(cb) ((struct ActivityImpl__wait_any_for__lambda0_env*)(cb).env)
struct Timer* Timer__set(double date, struct vf_fn cb)
    __CPROVER_requires(g_set_calls < 2000 && cb.env != NULL && date == date)
    __CPROVER_assigns(g_set_calls, g_set_date, g_set_fn, g_set_cap0, g_set_cap1)
    __CPROVER_ensures(__CPROVER_return_value == &g_timer && g_set_calls == __CPROVER_old(g_set_calls) + 1 &&
                      g_set_date == date && g_set_fn == cb.fn)
    __CPROVER_ensures(cb.fn != (vf_fnptr)ActivityImpl__wait_for__lambda0 ||
                      (g_set_cap0 == (void*)WF_ENV(cb)->self && g_set_cap1 == (void*)WF_ENV(cb)->issuer))
    __CPROVER_ensures(cb.fn != (vf_fnptr)ActivityImpl__wait_any_for__lambda0 ||
                      (g_set_cap0 == (void*)WA_ENV(cb)->issuer && g_set_cap1 == (void*)WA_ENV(cb)->activities));

/* ---------------- contracts of the units -------------------------------------------------------------------------- */
int* ActivityImpl__get_state(struct ActivityImpl* self) __CPROVER_requires(IS_ACTV(self)) __CPROVER_assigns()
    __CPROVER_ensures(__CPROVER_return_value == &self->state_);

/* register_simcall: the simcall becomes the LAST waiter of the activity, the activity the last waited synchro of the
 * simcall's issuer; nothing else moves */
void ActivityImpl__register_simcall(struct ActivityImpl* self, struct Simcall* simcall)
    __CPROVER_requires(IS_ACTV(self) && IS_SIMCALL(simcall) && WF && ROOM(self, simcall->issuer_))
    __CPROVER_assigns(self->simcalls_.n, __CPROVER_object_whole(self->simcalls_.d), simcall->issuer_->waiting_synchros_.n,
                      __CPROVER_object_whole(simcall->issuer_->waiting_synchros_.d))
    __CPROVER_ensures(WF) /*@ register_keeps_wf */
    __CPROVER_ensures(self->simcalls_.n == __CPROVER_old(self->simcalls_.n) + 1 &&
                      self->simcalls_.d[__CPROVER_old(self->simcalls_.n)] == simcall) /*@ register_appends_waiter */
    __CPROVER_ensures(!(gk < __CPROVER_old(self->simcalls_.n)) ||
                      self->simcalls_.d[gk] == __CPROVER_old(self->simcalls_.d[gk])) /*@ register_keeps_other_waiters */
    __CPROVER_ensures(simcall->issuer_->waiting_synchros_.n == __CPROVER_old(simcall->issuer_->waiting_synchros_.n) + 1 &&
                      simcall->issuer_->waiting_synchros_.d[__CPROVER_old(simcall->issuer_->waiting_synchros_.n)] == self)
    /*@ register_appends_waited_synchro */
    __CPROVER_ensures(!(gk < __CPROVER_old(simcall->issuer_->waiting_synchros_.n)) ||
                      simcall->issuer_->waiting_synchros_.d[gk] ==
                          __CPROVER_old(simcall->issuer_->waiting_synchros_.d[gk])) /*@ register_keeps_other_synchros */
    __CPROVER_ensures(vf_exc == __CPROVER_old(vf_exc));

/* unregister_simcall: the FIRST occurrence of the simcall leaves the activity's waiters (order of the others kept), the
 * first occurrence of the activity leaves the issuer's waited synchros; absent entries are not an error */
#define ANY4(P) (P(0) || P(1) || P(2) || P(3))
#define ALL4(P) (P(0) && P(1) && P(2) && P(3))
#define U_SC_AT(k) ((k) < __CPROVER_old(self->simcalls_.n) && __CPROVER_old(self->simcalls_.d[k]) == simcall)
#define U_SC_NOT_BEFORE(k) (!((k) < gk) || !U_SC_AT(k))
#define U_SC_KEEP(k) (!((k) < gk) || self->simcalls_.d[k] == __CPROVER_old(self->simcalls_.d[k]))
#define U_SC_SHIFT(k)                                                                                                  \
  (!(gk <= (k) && (k) < self->simcalls_.n) || self->simcalls_.d[k] == __CPROVER_old(self->simcalls_.d[(k) + 1]))
#define U_WS_AT(k)                                                                                                     \
  ((k) < __CPROVER_old(simcall->issuer_->waiting_synchros_.n) &&                                                       \
   __CPROVER_old(simcall->issuer_->waiting_synchros_.d[k]) == self)
void ActivityImpl__unregister_simcall(struct ActivityImpl* self, struct Simcall* simcall)
    __CPROVER_requires(IS_ACTV(self) && IS_SIMCALL(simcall) && WF)
    __CPROVER_assigns(self->simcalls_.n, __CPROVER_object_whole(self->simcalls_.d), simcall->issuer_->waiting_synchros_.n,
                      __CPROVER_object_whole(simcall->issuer_->waiting_synchros_.d))
    __CPROVER_ensures(WF) /*@ unregister_keeps_wf */
    __CPROVER_ensures(self->simcalls_.n == __CPROVER_old(self->simcalls_.n) - (ANY4(U_SC_AT) ? 1 : 0))
    /*@ unregister_removes_one_waiter_entry_if_present */
    __CPROVER_ensures(CNT(self, &g_p0.simcall_) ==
                          OCNT(self, &g_p0.simcall_) - ((simcall == &g_p0.simcall_ && ANY4(U_SC_AT)) ? 1 : 0) &&
                      CNT(self, &g_p1.simcall_) ==
                          OCNT(self, &g_p1.simcall_) - ((simcall == &g_p1.simcall_ && ANY4(U_SC_AT)) ? 1 : 0))
    /*@ unregister_removes_exactly_one_entry_of_that_simcall */
    __CPROVER_ensures(!(U_SC_AT(gk) && ALL4(U_SC_NOT_BEFORE)) ||
                      (U_SC_KEEP(0) && U_SC_KEEP(1) && U_SC_KEEP(2) && U_SC_SHIFT(0) && U_SC_SHIFT(1) && U_SC_SHIFT(2)))
    /*@ unregister_removes_first_occurrence_keeps_order */
    __CPROVER_ensures(ANY4(U_SC_AT) || !(gk < self->simcalls_.n) ||
                      self->simcalls_.d[gk] == __CPROVER_old(self->simcalls_.d[gk])) /*@ unregister_absent_keeps_waiters */
    __CPROVER_ensures(simcall->issuer_->waiting_synchros_.n ==
                      __CPROVER_old(simcall->issuer_->waiting_synchros_.n) - (ANY4(U_WS_AT) ? 1 : 0))
    /*@ unregister_removes_one_waited_synchro_if_present */
    __CPROVER_ensures(vf_exc == __CPROVER_old(vf_exc));

/* wait_for: the issuer's simcall is registered on the activity; activity already over => finish() once and NO timer;
 * otherwise timeout >= 0 => exactly one timer, at clock + timeout, whose callback is the timeout lambda bound to
 * (this activity, this issuer), remembered in simcall.timeout_cb_; timeout < 0 => no timer, nothing else */
#define WF_ABORTS(self, timeout)                                                                                       \
  (!__CPROVER_isfinited(timeout) || (!FINISHED_STATE((self)->state_) && (timeout) >= 0.0 && (g_mc != 0 || g_replay != 0)))
void ActivityImpl__wait_for(struct ActivityImpl* self, struct ActorImpl* issuer, double timeout)
    __CPROVER_requires(IS_ACTV(self) && IS_ACTOR(issuer) && WF && ROOM(self, issuer) && LOGS_OK && vf_exc == 0 &&
                       __CPROVER_isfinited(g_clock) && g_clock >= 0.0)
    __CPROVER_assigns(vf_exc, self->simcalls_.n, __CPROVER_object_whole(self->simcalls_.d), issuer->waiting_synchros_.n,
                      __CPROVER_object_whole(issuer->waiting_synchros_.d), self->vf_finished, issuer->simcall_.timeout_cb_,
                      g_set_calls, g_set_date, g_set_fn, g_set_cap0, g_set_cap1)
    __CPROVER_ensures((vf_exc == VF_EXC_ABORT) == WF_ABORTS(self, timeout)) /*@ wait_for_rejects_nonfinite_and_mc_timeouts */
    __CPROVER_ensures(vf_exc == 0 || vf_exc == VF_EXC_ABORT)
    __CPROVER_ensures(!__CPROVER_isfinited(timeout) ||
                      (self->simcalls_.n == __CPROVER_old(self->simcalls_.n) + 1 &&
                       self->simcalls_.d[__CPROVER_old(self->simcalls_.n)] == &issuer->simcall_))
    /*@ wait_for_registers_the_issuer */
    __CPROVER_ensures(vf_exc != 0 || !FINISHED_STATE(self->state_) ||
                      (self->vf_finished == __CPROVER_old(self->vf_finished) + 1 &&
                       g_set_calls == __CPROVER_old(g_set_calls) &&
                       issuer->simcall_.timeout_cb_ == __CPROVER_old(issuer->simcall_.timeout_cb_)))
    /*@ wait_for_on_finished_activity_finishes_it_without_timer */
    __CPROVER_ensures(vf_exc != 0 || FINISHED_STATE(self->state_) || !(timeout >= 0.0) ||
                      (g_set_calls == __CPROVER_old(g_set_calls) + 1 && g_set_date == g_clock + timeout &&
                       g_set_fn == (vf_fnptr)ActivityImpl__wait_for__lambda0 && g_set_cap0 == (void*)self &&
                       g_set_cap1 == (void*)issuer && issuer->simcall_.timeout_cb_ == &g_timer &&
                       self->vf_finished == __CPROVER_old(self->vf_finished)))
    /*@ wait_for_sets_one_timer_at_clock_plus_timeout */
    __CPROVER_ensures(vf_exc != 0 || FINISHED_STATE(self->state_) || timeout >= 0.0 ||
                      (g_set_calls == __CPROVER_old(g_set_calls) && self->vf_finished == __CPROVER_old(self->vf_finished) &&
                       issuer->simcall_.timeout_cb_ == __CPROVER_old(issuer->simcall_.timeout_cb_)))
    /*@ wait_for_without_timeout_sets_no_timer */;

/* the timeout callback of wait_for, run by the timer AT the deadline: if the model action is FINISHED or FAILED the
 * activity completed right on time => the waiter is left registered and is not answered; otherwise the waiter is
 * unregistered, its exception cleared, the observer result is `true` (timed out) and the issuer is answered once */
#define L_ENV ((struct ActivityImpl__wait_for__lambda0_env*)__env)
#define L_ON_TIME(v) ((v)->model_action_ != NULL && ((v)->model_action_->vf_state == ActionState__FINISHED || (v)->model_action_->vf_state == ActionState__FAILED))
#define L_SC_AT(k) ((k) < __CPROVER_old(L_ENV->self->simcalls_.n) && __CPROVER_old(L_ENV->self->simcalls_.d[k]) == &L_ENV->issuer->simcall_)
void ActivityImpl__wait_for__lambda0(void* __env)
    __CPROVER_requires(__CPROVER_r_ok(L_ENV, sizeof(*L_ENV)) && IS_ACTV(L_ENV->self) && IS_ACTOR(L_ENV->issuer) && WF &&
                       LOGS_OK && vf_exc == 0)
    __CPROVER_assigns(vf_exc, L_ENV->issuer->simcall_.timeout_cb_, L_ENV->self->simcalls_.n,
                      __CPROVER_object_whole(L_ENV->self->simcalls_.d), L_ENV->issuer->waiting_synchros_.n,
                      __CPROVER_object_whole(L_ENV->issuer->waiting_synchros_.d), L_ENV->issuer->exception_,
                      g_result_calls, g_result_val, g_result_obj, L_ENV->issuer->vf_answered)
    __CPROVER_ensures(L_ENV->issuer->simcall_.timeout_cb_ == NULL) /*@ timeout_cb_forgets_the_timer */
    __CPROVER_ensures(!L_ON_TIME(L_ENV->self) ||
                      (vf_exc == 0 && L_ENV->self->simcalls_.n == __CPROVER_old(L_ENV->self->simcalls_.n) &&
                       (!(gk < L_ENV->self->simcalls_.n) ||
                        L_ENV->self->simcalls_.d[gk] == __CPROVER_old(L_ENV->self->simcalls_.d[gk])) &&
                       L_ENV->issuer->vf_answered == __CPROVER_old(L_ENV->issuer->vf_answered) &&
                       g_result_calls == __CPROVER_old(g_result_calls) &&
                       L_ENV->issuer->exception_ == __CPROVER_old(L_ENV->issuer->exception_)))
    /*@ completion_at_the_deadline_counts_as_completed */
    __CPROVER_ensures(L_ON_TIME(L_ENV->self) || (vf_exc == VF_EXC_ABORT) == !g_is_wait_obs)
    /*@ timeout_needs_a_wait_observer */
    __CPROVER_ensures(vf_exc == 0 || vf_exc == VF_EXC_ABORT)
    __CPROVER_ensures(L_ON_TIME(L_ENV->self) || vf_exc != 0 ||
                      (L_ENV->self->simcalls_.n == __CPROVER_old(L_ENV->self->simcalls_.n) - (ANY4(L_SC_AT) ? 1 : 0) &&
                       L_ENV->issuer->exception_ == 0 && g_result_calls == __CPROVER_old(g_result_calls) + 1 &&
                       g_result_val == 1 && g_result_obj == (void*)&g_obs_wait.__b_DelayedSimcallObserver &&
                       L_ENV->issuer->vf_answered == __CPROVER_old(L_ENV->issuer->vf_answered) + 1))
    /*@ timeout_unregisters_reports_true_and_answers_once */;

/* the timeout callback of wait_any_for: the simcall is unregistered from EVERY activity of the set, the issuer is
 * answered once (result stays -1: nothing completed) */
#define A_ENV ((struct ActivityImpl__wait_any_for__lambda0_env*)__env)
#define ALL_SC_TARGETS                                                                                                 \
  g_v0.simcalls_.n, g_v1.simcalls_.n, g_v2.simcalls_.n, __CPROVER_object_whole(g_sc0), __CPROVER_object_whole(g_sc1),  \
      __CPROVER_object_whole(g_sc2)
#define NOT_WAITING_AT(i, k) (!((k) < g_v##i.simcalls_.n) || g_sc##i[k] != &A_ENV->issuer->simcall_)
#define NOT_WAITING(i) (NOT_WAITING_AT(i, 0) && NOT_WAITING_AT(i, 1) && NOT_WAITING_AT(i, 2) && NOT_WAITING_AT(i, 3))
#define IN_ACTS_AT(v, k) ((k) < g_acts.n && g_av[k] == (v))
#define IN_ACTS(v) (IN_ACTS_AT(v, 0) || IN_ACTS_AT(v, 1) || IN_ACTS_AT(v, 2))
/* each actor's simcall is registered at most once per activity (a waitany registers once on each activity) */
#define SC_ONCE_V(i) (CNT(&g_v##i, &g_p0.simcall_) <= 1 && CNT(&g_v##i, &g_p1.simcall_) <= 1)
#define SC_ONCE (SC_ONCE_V(0) && SC_ONCE_V(1) && SC_ONCE_V(2))
#define WF_ACTS                                                                                                        \
  (g_acts.d == g_av && g_acts.h == 0 && g_acts.cap == NV && g_acts.n <= NV && (!(0 < g_acts.n) || IS_ACTV(g_av[0])) && \
   (!(1 < g_acts.n) || IS_ACTV(g_av[1])) && (!(2 < g_acts.n) || IS_ACTV(g_av[2])))
void ActivityImpl__wait_any_for__lambda0(void* __env)
    __CPROVER_requires(__CPROVER_r_ok(A_ENV, sizeof(*A_ENV)) && IS_ACTOR(A_ENV->issuer) && A_ENV->activities == &g_acts &&
                       WF_ACTS && WF && SC_ONCE && LOGS_OK && vf_exc == 0)
    __CPROVER_assigns(A_ENV->issuer->simcall_.timeout_cb_, ALL_SC_TARGETS, A_ENV->issuer->waiting_synchros_.n,
                      __CPROVER_object_whole(A_ENV->issuer->waiting_synchros_.d), A_ENV->issuer->vf_answered)
    __CPROVER_ensures(vf_exc == 0 && A_ENV->issuer->simcall_.timeout_cb_ == NULL) /*@ waitany_timeout_forgets_the_timer */
    __CPROVER_ensures((!IN_ACTS(&g_v0) || NOT_WAITING(0)) && (!IN_ACTS(&g_v1) || NOT_WAITING(1)) &&
                      (!IN_ACTS(&g_v2) || NOT_WAITING(2))) /*@ waitany_timeout_unregisters_from_every_activity */
    __CPROVER_ensures(A_ENV->issuer->vf_answered == __CPROVER_old(A_ENV->issuer->vf_answered) + 1)
    /*@ waitany_timeout_answers_once */
    __CPROVER_ensures(g_lresult_calls == __CPROVER_old(g_lresult_calls)) /*@ waitany_timeout_leaves_default_result */;

#define WA_NOT_WAITING_AT(i, k) (!((k) < g_v##i.simcalls_.n) || g_sc##i[k] != &issuer->simcall_)
#define WA_NOT_WAITING(i) (WA_NOT_WAITING_AT(i, 0) && WA_NOT_WAITING_AT(i, 1) && WA_NOT_WAITING_AT(i, 2) && WA_NOT_WAITING_AT(i, 3))
#define DONE_BEFORE_AT(v, k) ((k) < __i0 && g_av[k] == (v))
#define DONE_BEFORE(v) (DONE_BEFORE_AT(v, 0) || DONE_BEFORE_AT(v, 1) || DONE_BEFORE_AT(v, 2))
#define VF_LOOP_ActivityImpl__wait_any_for__lambda0_0                                                                  \
  __CPROVER_assigns(__i0, ALL_SC_TARGETS, issuer->waiting_synchros_.n, __CPROVER_object_whole(issuer->waiting_synchros_.d)) \
      __CPROVER_loop_invariant(__i0 <= __r0->n && vf_exc == 0 && WF && SC_ONCE && (!DONE_BEFORE(&g_v0) || WA_NOT_WAITING(0)) && \
                               (!DONE_BEFORE(&g_v1) || WA_NOT_WAITING(1)) && (!DONE_BEFORE(&g_v2) || WA_NOT_WAITING(2)))  \
          __CPROVER_decreases(__r0->n - __i0)

/* wait_any_for (simulation mode): timeout < 0 => no timer; otherwise exactly one timer at clock + timeout whose callback
 * is the waitany timeout lambda bound to (issuer, activities). The simcall is registered on the activities in order up
 * to and including the FIRST one that is already over; that one (and no other) is finish()ed - the waitany returns an
 * already completed activity if there is one; the activities after it are not touched.
 * (model-checker mode: no timer; the activity chosen by the checker is registered, marked DONE and finished) */
size_t gj; /* ghost position in the activity set */
#define AV_FIN(k) FINISHED_STATE(g_av[k]->state_)
#define NONE_FIN_BEFORE(k) ((!(0 < (k)) || !AV_FIN(0)) && (!(1 < (k)) || !AV_FIN(1)) && (!(2 < (k)) || !AV_FIN(2)))
#define ACTS_DISTINCT                                                                                                  \
  ((!(1 < g_acts.n) || g_av[0] != g_av[1]) && (!(2 < g_acts.n) || (g_av[0] != g_av[2] && g_av[1] != g_av[2])))
#define ROOM_ALL(p)                                                                                                    \
  (g_v0.simcalls_.n < SC && g_v1.simcalls_.n < SC && g_v2.simcalls_.n < SC && (p)->waiting_synchros_.n <= WC - NV)
#define SIM_MODE (g_mc == 0 && g_replay == 0)
#define MC_IDX (g_obs_any.next_value_)
#define MC_FIN(k)                                                                                                      \
  (MC_IDX != (k) || (g_av[k]->state_ == State__DONE && g_av[k]->vf_finished == __CPROVER_old(g_av[k]->vf_finished) + 1))
void ActivityImpl__wait_any_for(struct ActorImpl* issuer, struct vf_seq_ActivityImplP* activities, double timeout)
    __CPROVER_requires(IS_ACTOR(issuer) && activities == &g_acts && WF_ACTS && ACTS_DISTINCT && WF && ROOM_ALL(issuer) &&
                       LOGS_OK && vf_exc == 0 && __CPROVER_isfinited(g_clock) && g_clock >= 0.0 &&
                       !__CPROVER_isnand(timeout) && (MC_IDX == -1 || (0 <= MC_IDX && (size_t)MC_IDX < g_acts.n)))
    __CPROVER_assigns(vf_exc, issuer->simcall_.timeout_cb_, ALL_SC_TARGETS, issuer->waiting_synchros_.n,
                      __CPROVER_object_whole(issuer->waiting_synchros_.d), g_v0.vf_finished, g_v1.vf_finished,
                      g_v2.vf_finished, g_v0.state_, g_v1.state_, g_v2.state_, g_set_calls, g_set_date, g_set_fn,
                      g_set_cap0, g_set_cap1, g_lresult_calls, g_lresult_val)
    __CPROVER_ensures(!SIM_MODE || vf_exc == 0)
    __CPROVER_ensures(!SIM_MODE || !(timeout < 0.0) ||
                      (issuer->simcall_.timeout_cb_ == NULL && g_set_calls == __CPROVER_old(g_set_calls)))
    /*@ waitany_without_timeout_sets_no_timer */
    __CPROVER_ensures(!SIM_MODE || timeout < 0.0 ||
                      (g_set_calls == __CPROVER_old(g_set_calls) + 1 && g_set_date == g_clock + timeout &&
                       g_set_fn == (vf_fnptr)ActivityImpl__wait_any_for__lambda0 && g_set_cap0 == (void*)issuer &&
                       g_set_cap1 == (void*)activities && issuer->simcall_.timeout_cb_ == &g_timer))
    /*@ waitany_sets_one_timer_at_clock_plus_timeout */
    __CPROVER_ensures(!SIM_MODE || !(gj < g_acts.n) || !NONE_FIN_BEFORE(gj) ||
                      (g_av[gj]->simcalls_.n == __CPROVER_old(g_av[gj]->simcalls_.n) + 1 &&
                       g_av[gj]->simcalls_.d[__CPROVER_old(g_av[gj]->simcalls_.n)] == &issuer->simcall_ &&
                       g_av[gj]->vf_finished == __CPROVER_old(g_av[gj]->vf_finished) + (AV_FIN(gj) ? 1 : 0)))
    /*@ waitany_registers_up_to_first_completed_and_finishes_exactly_it */
    __CPROVER_ensures(!SIM_MODE || !(gj < g_acts.n) || NONE_FIN_BEFORE(gj) ||
                      (g_av[gj]->simcalls_.n == __CPROVER_old(g_av[gj]->simcalls_.n) &&
                       g_av[gj]->vf_finished == __CPROVER_old(g_av[gj]->vf_finished)))
    /*@ waitany_leaves_activities_after_the_completed_one_alone */
    __CPROVER_ensures(!SIM_MODE || (g_v0.state_ == __CPROVER_old(g_v0.state_) && g_v1.state_ == __CPROVER_old(g_v1.state_) &&
                                    g_v2.state_ == __CPROVER_old(g_v2.state_) &&
                                    g_lresult_calls == __CPROVER_old(g_lresult_calls)))
    /*@ waitany_sim_mode_changes_no_state */
    __CPROVER_ensures(SIM_MODE || (vf_exc == VF_EXC_ABORT) == (!g_is_any_obs || !(timeout <= 0.0)))
    /*@ waitany_mc_mode_rejects_timeouts */
    __CPROVER_ensures(vf_exc == 0 || vf_exc == VF_EXC_ABORT)
    __CPROVER_ensures(SIM_MODE || g_set_calls == __CPROVER_old(g_set_calls)) /*@ waitany_mc_mode_sets_no_timer */
    __CPROVER_ensures(SIM_MODE || vf_exc != 0 || MC_IDX == -1 ||
                      (MC_FIN(0) && MC_FIN(1) && MC_FIN(2) && g_lresult_calls == __CPROVER_old(g_lresult_calls) + 1 &&
                       g_lresult_val == MC_IDX))
    /*@ waitany_mc_mode_finishes_the_chosen_activity */;

/* loop 0 of wait_any_for: positions [0, __i0) are registered and none of them is over */
#define W_SEEN_AT(v, k) ((k) < __i0 && g_av[k] == (v))
#define W_SEEN(v) (W_SEEN_AT(v, 0) || W_SEEN_AT(v, 1) || W_SEEN_AT(v, 2))
#define W_INV_V(i)                                                                                                     \
  (g_v##i.vf_finished == LE(g_v##i.vf_finished) &&                                                                     \
   (W_SEEN(&g_v##i) ? (g_v##i.simcalls_.n == LE(g_v##i.simcalls_.n) + 1 &&                                             \
                       g_sc##i[LE(g_v##i.simcalls_.n)] == &issuer->simcall_ && !FINISHED_STATE(g_v##i.state_))         \
                    : g_v##i.simcalls_.n == LE(g_v##i.simcalls_.n)))
#define LE(e) __CPROVER_loop_entry(e)
#define VF_LOOP_ActivityImpl__wait_any_for_0                                                                           \
  __CPROVER_assigns(__i0, ALL_SC_TARGETS, issuer->waiting_synchros_.n, __CPROVER_object_whole(issuer->waiting_synchros_.d), \
                    g_v0.vf_finished, g_v1.vf_finished, g_v2.vf_finished)                                              \
      __CPROVER_loop_invariant(__i0 <= __r0->n && vf_exc == 0 && WF &&                                                 \
                               issuer->waiting_synchros_.n == LE(issuer->waiting_synchros_.n) + __i0 && W_INV_V(0) &&  \
                               W_INV_V(1) && W_INV_V(2)) __CPROVER_decreases(__r0->n - __i0)

#include "gen.c"

/* ---------------- harnesses -------------------------------------------------------------------------------------- */
int nondet_int(void);
_Bool nondet_bool(void);
double nondet_double(void);

static struct ActorImpl* pick_actor(void) { return nondet_bool() ? &g_p0 : &g_p1; }
static struct ActivityImpl* pick_actv(void)
{
  int i = nondet_int();
  __CPROVER_assume(0 <= i && i < NV);
  return i == 0 ? &g_v0 : i == 1 ? &g_v1 : &g_v2;
}
#define WIRE_V(i)                                                                                                      \
  g_v##i.simcalls_.d   = g_sc##i;                                                                                      \
  g_v##i.simcalls_.h   = 0;                                                                                            \
  g_v##i.simcalls_.cap = SC;                                                                                           \
  g_v##i.model_action_ = nondet_bool() ? NULL : &g_ma##i;                                                              \
  for (int k = 0; k < SC; k++)                                                                                         \
    g_sc##i[k] = nondet_bool() ? &g_p0.simcall_ : &g_p1.simcall_;
#define WIRE_P(i)                                                                                                      \
  g_p##i.waiting_synchros_.d   = g_ws##i;                                                                              \
  g_p##i.waiting_synchros_.h   = 0;                                                                                    \
  g_p##i.waiting_synchros_.cap = WC;                                                                                   \
  g_p##i.simcall_.issuer_      = &g_p##i;                                                                              \
  g_p##i.simcall_.observer_    = &g_ob##i;                                                                             \
  g_p##i.simcall_.timeout_cb_  = nondet_bool() ? NULL : &g_timer;                                                      \
  for (int k = 0; k < WC; k++)                                                                                         \
    g_ws##i[k] = pick_actv();

static void setup(void)
{
  WIRE_V(0) WIRE_V(1) WIRE_V(2) WIRE_P(0) WIRE_P(1)
  g_acts.d   = g_av;
  g_acts.h   = 0;
  g_acts.cap = NV;
  for (int k = 0; k < NV; k++)
    g_av[k] = pick_actv();
  vf_exc = 0;
  __CPROVER_assume(gk < SC);
  __CPROVER_assume(gj < NV);
}

#ifdef H_get_state
void harness(void)
{
  setup();
  ActivityImpl__get_state(pick_actv());
  VF_CANARY_POINT;
}
#endif
#ifdef H_register
void harness(void)
{
  setup();
  ActivityImpl__register_simcall(pick_actv(), &pick_actor()->simcall_);
  VF_CANARY_POINT;
}
#endif
#ifdef H_unregister
void harness(void)
{
  setup();
  ActivityImpl__unregister_simcall(pick_actv(), &pick_actor()->simcall_);
  VF_CANARY_POINT;
}
#endif
#ifdef H_wait_for
void harness(void)
{
  setup();
  ActivityImpl__wait_for(pick_actv(), pick_actor(), nondet_double());
  VF_CANARY_POINT;
}
#endif
#ifdef H_wait_for_timeout
void harness(void)
{
  setup();
  struct ActivityImpl__wait_for__lambda0_env env = {pick_actv(), pick_actor()};
  ActivityImpl__wait_for__lambda0(&env);
  VF_CANARY_POINT;
}
#endif
#ifdef H_wait_any_timeout
void harness(void)
{
  setup();
  struct ActivityImpl__wait_any_for__lambda0_env env = {pick_actor(), &g_acts};
  ActivityImpl__wait_any_for__lambda0(&env);
  VF_CANARY_POINT;
}
#endif
/* UNDECIDED, not part of check.json: the harness of ActivityImpl::wait_any_for itself (contract and loop invariant
 * above) did not finish within 900 s of cbmc (symbolic execution, `--object-bits 12`) on the loaded machine, so its
 * obligations are neither discharged nor refuted. To try it: add {"name": "wait_any_for", "enforce":
 * "ActivityImpl__wait_any_for", "expect_loops": ["ActivityImpl__wait_any_for"], "cbmc": ["--object-bits", "12"]} to
 * check.json. The contract is not used by any other harness (wait_any_for is not a callee of a C12 unit). */
#ifdef H_wait_any_for
void harness(void)
{
  setup();
  ActivityImpl__wait_any_for(pick_actor(), &g_acts, nondet_double());
  VF_CANARY_POINT;
}
#endif
