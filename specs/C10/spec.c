/* C10 — Failures: CommImpl::finish (src/kernel/activity/CommImpl.cpp).
 * Property: when a host or link involved in a communication is off / failed, every surviving actor blocked on it gets
 * the corresponding failure exception (and is answered, so it does not stay blocked); actors that are dying are not
 * answered.
 * Abstract view: S1 = the state the comm takes at the beginning of finish():
 *     source host off -> SRC_HOST_FAILURE; else destination host off -> DST_HOST_FAILURE; else network action FAILED ->
 *     LINK_FAILURE; else RUNNING -> DONE; else unchanged;
 *   WAITERS = the deque simcalls_ (each entry = the simcall of one actor); per actor: vf_dying (ghost: what
 *   unregister_first_simcall decides), vf_answered (# simcall_answer), exception_ (kind of the stored exception).  */
#define SCAP 3 /* waiters on the comm */
#include "gen.h"

struct CommImpl g_c;
struct ActorImpl g_p[4]; /* 0 = sender, 1 = receiver, 2 = a third actor (waitany), 3 = maestro */
struct Simcall g_sc0, g_sc1, g_sc2; /* the simcall of actor 0, 1, 2 */
struct Simcall* g_sd[SCAP + 1];
struct ActivityImpl* g_ak[4][2]; /* storage of the actors' activities_ sets (contents incidental) */
struct Host g_h0, g_h1;
struct Action g_ma;
struct Comm g_iface;
struct MailboxImpl g_mbox;
struct EngineImpl g_engine;
int g_fired, g_copied;

#define ACT(c) ((c).__b_ActivityImpl_T_CommImpl.__b_ActivityImpl)
#define IS_SC(s) ((s) == &g_sc0 || (s) == &g_sc1 || (s) == &g_sc2)
#define SC_OF(j) (&g_sc##j)
#define WF_COMM                                                                                                        \
  (ACT(g_c).simcalls_.d == g_sd && ACT(g_c).simcalls_.cap == SCAP + 1 && ACT(g_c).simcalls_.h <= SCAP &&               \
   ACT(g_c).simcalls_.n <= SCAP && ACT(g_c).simcalls_.h + ACT(g_c).simcalls_.n <= SCAP && IS_SC(g_sd[0]) &&            \
   IS_SC(g_sd[1]) && IS_SC(g_sd[2]) && g_sc0.issuer_ == &g_p[0] && g_sc1.issuer_ == &g_p[1] &&                         \
   g_sc2.issuer_ == &g_p[2] && (g_c.from_ == NULL || g_c.from_ == &g_h0) && (g_c.to_ == NULL || g_c.to_ == &g_h1) &&    \
   (ACT(g_c).model_action_ == NULL || ACT(g_c).model_action_ == &g_ma) &&                                              \
   (g_c.src_actor_ == NULL || g_c.src_actor_ == &g_p[0]) && (g_c.dst_actor_ == NULL || g_c.dst_actor_ == &g_p[1]) &&    \
   (g_c.mbox_ == NULL || g_c.mbox_ == &g_mbox) &&                                                                      \
   (ACT(g_c).piface_ == NULL || ACT(g_c).piface_ == &g_iface.__b_Activity_T_Comm.__b_Activity))
#define WF_SET(j) (g_p[j].activities_.k == g_ak[j] && g_p[j].activities_.cap == 2 && g_p[j].activities_.n <= 2)
#define WF_SETS (WF_SET(0) && WF_SET(1) && WF_SET(2) && WF_SET(3))
#define CNT_OK(j) (0 <= g_p[j].vf_answered && g_p[j].vf_answered < 1000)
#define WF_ACTORS (WF_SETS && CNT_OK(0) && CNT_OK(1) && CNT_OK(2))
/* an actor whose host is off is dying (unregister_first_simcall marks it): the sender lives on from_, the receiver on
 * to_ - this is what makes the two xbt_assert(issuer != src_actor_ / dst_actor_) of the source hold */
#define HOST_LINK                                                                                                      \
  ((g_c.from_ == NULL || g_h0.vf_on || g_c.src_actor_ == NULL || g_p[0].vf_dying) &&                                    \
   (g_c.to_ == NULL || g_h1.vf_on || g_c.dst_actor_ == NULL || g_p[1].vf_dying))

/* the state finish() computes first (evaluated on the entry state) */
#define SRC_OFF (g_c.from_ != NULL && !g_h0.vf_on)
#define DST_OFF (g_c.to_ != NULL && !g_h1.vf_on)
#define LINK_KO(ma) ((ma) != NULL && g_ma.vf_state == ActionState__FAILED)
#define S1_OF(st, ma)                                                                                                  \
  (SRC_OFF ? State__SRC_HOST_FAILURE                                                                                   \
           : DST_OFF ? State__DST_HOST_FAILURE                                                                         \
                     : LINK_KO(ma) ? State__LINK_FAILURE : (st) == State__RUNNING ? State__DONE : (st))
#define IS_FAILURE(s)                                                                                                  \
  ((s) == State__FAILED || (s) == State__SRC_HOST_FAILURE || (s) == State__DST_HOST_FAILURE || (s) == State__LINK_FAILURE)
#define EXC_FOR(s, oldexc)                                                                                             \
  (IS_FAILURE(s) ? VF_EXC_NetworkFailureException : (s) == State__CANCELED ? VF_EXC_CancelException : (oldexc))
#define ANSWERABLE(s) (IS_FAILURE(s) || (s) == State__CANCELED || (s) == State__DONE)

/* ---------------- assumed contracts of callees outside C10 (listed in check.json) --------------------------------- */
_Bool Host__is_on(struct Host* self) __CPROVER_requires(self == &g_h0 || self == &g_h1) __CPROVER_assigns()
    __CPROVER_ensures(__CPROVER_return_value == (self->vf_on != 0));
int Action__get_state(struct Action* self) __CPROVER_requires(self == &g_ma) __CPROVER_assigns()
    __CPROVER_ensures(__CPROVER_return_value == self->vf_state);
void Comm__fire_on_completion_for_real(struct Comm* self) __CPROVER_requires(self == &g_iface) __CPROVER_assigns(g_fired)
    __CPROVER_ensures(1);
void Comm__fire_on_this_completion_for_real(struct Comm* self) __CPROVER_requires(self == &g_iface)
    __CPROVER_assigns(g_fired) __CPROVER_ensures(1);
void Activity__release_dependencies(struct Activity* self) __CPROVER_requires(1) __CPROVER_assigns(g_fired)
    __CPROVER_ensures(1);
void ActivityImpl__clean_action(struct ActivityImpl* self) __CPROVER_requires(self == &ACT(g_c))
    __CPROVER_assigns(self->model_action_) __CPROVER_ensures(self->model_action_ == NULL);
void MailboxImpl__remove(struct MailboxImpl* self, struct CommImpl* comm) __CPROVER_requires(self == &g_mbox && comm == &g_c)
    __CPROVER_assigns(g_c.mbox_) __CPROVER_ensures(g_c.mbox_ == NULL);
void CommImpl__copy_data(struct CommImpl* self) __CPROVER_requires(self == &g_c) __CPROVER_assigns(g_copied)
    __CPROVER_ensures(1);
struct EngineImpl* get_instance(void) __CPROVER_requires(1) __CPROVER_assigns()
    __CPROVER_ensures(__CPROVER_return_value == &g_engine);
/* unregister_first_simcall: the oldest waiter leaves the deque; the result is its issuer, or NULL when that actor is
 * dying (host off, or already exiting) - the ghost vf_dying stands for that decision */
struct ActorImpl* ActivityImpl__unregister_first_simcall(struct ActivityImpl* self)
    __CPROVER_requires(self == &ACT(g_c) && WF_COMM && self->simcalls_.n > 0)
    __CPROVER_assigns(self->simcalls_.h, self->simcalls_.n)
    __CPROVER_ensures(__CPROVER_return_value == NULL ||
                      __CPROVER_pointer_in_range_dfcc(&g_p[0], __CPROVER_return_value, &g_p[2]))
    __CPROVER_ensures(self->simcalls_.h == __CPROVER_old(self->simcalls_.h) + 1 &&
                      self->simcalls_.n == __CPROVER_old(self->simcalls_.n) - 1)
    __CPROVER_ensures(__CPROVER_return_value ==
                      (g_sd[__CPROVER_old(self->simcalls_.h)] == &g_sc0   ? (g_p[0].vf_dying ? NULL : &g_p[0])
                       : g_sd[__CPROVER_old(self->simcalls_.h)] == &g_sc1 ? (g_p[1].vf_dying ? NULL : &g_p[1])
                                                                          : (g_p[2].vf_dying ? NULL : &g_p[2])));
void ActorImpl__simcall_answer(struct ActorImpl* self)
    __CPROVER_requires((self == &g_p[0] || self == &g_p[1] || self == &g_p[2]) && self->vf_answered < 2000)
    __CPROVER_assigns(self->vf_answered) __CPROVER_ensures(self->vf_answered == __CPROVER_old(self->vf_answered) + 1);
/* throw_exception(e): stores e in the actor (its other effects - resume, cancel of the blocking synchros - are outside C10) */
void ActorImpl__throw_exception(struct ActorImpl* self, vf_excptr e)
    __CPROVER_requires(self == &g_p[0] || self == &g_p[1] || self == &g_p[2]) __CPROVER_assigns(self->exception_)
    __CPROVER_ensures(self->exception_ == e);
/* the activities_ sets of the actors are incidental here (over-approximating contract of the set model's erase) */
#define IS_ACTSET(s)                                                                                                   \
  ((s) == &g_p[0].activities_ || (s) == &g_p[1].activities_ || (s) == &g_p[2].activities_ || (s) == &g_p[3].activities_)
static inline size_t vf_set_ActivityImplP_erase(struct vf_set_ActivityImplP* s, struct ActivityImpl* v)
    __CPROVER_requires(IS_ACTSET(s) && s->n <= s->cap) __CPROVER_assigns(s->n, __CPROVER_object_whole(s->k))
    __CPROVER_ensures(s->n <= __CPROVER_old(s->n));

/* ---------------- contract of CommImpl::finish -------------------------------------------------------------------- */
#define Sh (ACT(g_c).simcalls_.h)
#define Sn (ACT(g_c).simcalls_.n)
/* number of waiters of actor j among the entry-state deque (positions h0 .. h0+n0) */
#define OW_AT(j, k)                                                                                                    \
  ((__CPROVER_old(ACT(g_c).simcalls_.h) <= (k) && (k) < __CPROVER_old(ACT(g_c).simcalls_.h) + __CPROVER_old(ACT(g_c).simcalls_.n) && \
    g_sd[k] == SC_OF(j))                                                                                               \
       ? 1                                                                                                             \
       : 0)
#define OWAITS(j) (OW_AT(j, 0) + OW_AT(j, 1) + OW_AT(j, 2))
#define LIVE_WAITER(j) (!g_p[j].vf_dying && OWAITS(j) > 0)
#define ANY_LIVE_WAITER (LIVE_WAITER(0) || LIVE_WAITER(1) || LIVE_WAITER(2))
#define S1 S1_OF(__CPROVER_old(ACT(g_c).state_), __CPROVER_old(ACT(g_c).model_action_))
#define RUNNING_WITHOUT_HOSTS                                                                                          \
  (!SRC_OFF && !DST_OFF && !LINK_KO(__CPROVER_old(ACT(g_c).model_action_)) &&                                          \
   __CPROVER_old(ACT(g_c).state_) == State__RUNNING && (g_c.from_ == NULL || g_c.to_ == NULL))
#define FIN_ACTOR(j)                                                                                                   \
  (g_p[j].vf_answered == __CPROVER_old(g_p[j].vf_answered) + (g_p[j].vf_dying ? 0 : OWAITS(j)) &&                      \
   g_p[j].exception_ == (LIVE_WAITER(j) ? EXC_FOR(S1, __CPROVER_old(g_p[j].exception_)) : __CPROVER_old(g_p[j].exception_)))
void CommImpl__finish(struct CommImpl* self)
    __CPROVER_requires(self == &g_c && WF_COMM && WF_ACTORS && HOST_LINK && vf_exc == 0)
    /* SRC/DST_HOST_FAILURE are transient states that only finish() itself gives to a comm */
    __CPROVER_requires(ACT(g_c).state_ != State__SRC_HOST_FAILURE && ACT(g_c).state_ != State__DST_HOST_FAILURE)
    __CPROVER_assigns(vf_exc, ACT(g_c).state_, ACT(g_c).piface_, ACT(g_c).model_action_, g_c.mbox_, g_fired, g_copied, Sh, Sn,
                      __CPROVER_object_whole(g_p), __CPROVER_object_whole(g_ak))
    __CPROVER_ensures(vf_exc == 0 || vf_exc == VF_EXC_ABORT)
    __CPROVER_ensures((vf_exc == VF_EXC_ABORT) == (RUNNING_WITHOUT_HOSTS || (ANY_LIVE_WAITER && !ANSWERABLE(S1))))
    /*@ finish_rejects_only_inconsistent_states */
    __CPROVER_ensures(vf_exc != 0 || (FIN_ACTOR(0) && FIN_ACTOR(1) && FIN_ACTOR(2)))
    /*@ every_surviving_waiter_gets_the_failure_exception_and_is_answered_dying_ones_are_not */
    __CPROVER_ensures(vf_exc != 0 || Sn == 0) /*@ finish_leaves_no_waiter */
    __CPROVER_ensures(vf_exc != 0 ||
                      ACT(g_c).state_ == ((ANY_LIVE_WAITER && (S1 == State__SRC_HOST_FAILURE || S1 == State__DST_HOST_FAILURE ||
                                                               S1 == State__LINK_FAILURE))
                                              ? State__FAILED
                                              : S1)) /*@ finish_final_state */
    __CPROVER_ensures(vf_exc != 0 || (ACT(g_c).piface_ == NULL && ACT(g_c).model_action_ == NULL && g_c.mbox_ == NULL))
    /*@ finish_detaches_interface_action_and_mailbox */
    __CPROVER_ensures(vf_exc != 0 || WF_SETS) /*@ finish_keeps_actor_sets_wf */;

/* loop 0: waiters [h0, h) have been handled */
#define LE(e) __CPROVER_loop_entry(e)
#define LW_AT(j, k) ((LE(Sh) <= (k) && (k) < Sh && g_sd[k] == SC_OF(j)) ? 1 : 0)
#define LWAITS(j) (LW_AT(j, 0) + LW_AT(j, 1) + LW_AT(j, 2))
#define L_LIVE(j) (!g_p[j].vf_dying && LWAITS(j) > 0)
#define L_ANY_LIVE (L_LIVE(0) || L_LIVE(1) || L_LIVE(2))
#define LS1 LE(ACT(g_c).state_)
#define L_ACTOR(j)                                                                                                     \
  (g_p[j].vf_answered == LE(g_p[j].vf_answered) + (g_p[j].vf_dying ? 0 : LWAITS(j)) &&                                 \
   g_p[j].exception_ == (L_LIVE(j) ? EXC_FOR(LS1, LE(g_p[j].exception_)) : LE(g_p[j].exception_)) &&                   \
   g_p[j].vf_dying == LE(g_p[j].vf_dying))
#define VF_LOOP_CommImpl__finish_0                                                                                     \
  __CPROVER_assigns(vf_exc, ACT(g_c).state_, Sh, Sn, __CPROVER_object_whole(g_p), __CPROVER_object_whole(g_ak))        \
      __CPROVER_loop_invariant(vf_exc == 0 && Sh <= SCAP && Sn <= SCAP && LE(Sh) <= Sh &&                               \
                               Sh + Sn == LE(Sh) + LE(Sn) && WF_SETS &&                                               \
                               g_p[3].vf_dying == LE(g_p[3].vf_dying) && L_ACTOR(0) && L_ACTOR(1) && L_ACTOR(2) &&     \
                               (!L_ANY_LIVE || ANSWERABLE(LS1)) &&                                                     \
                               ACT(g_c).state_ == ((L_ANY_LIVE && (LS1 == State__SRC_HOST_FAILURE ||                   \
                                                                   LS1 == State__DST_HOST_FAILURE ||                   \
                                                                   LS1 == State__LINK_FAILURE))                        \
                                                       ? State__FAILED                                                 \
                                                       : LS1)) __CPROVER_decreases(Sn)

#include "gen.c"

/* ---------------- harness ------------------------------------------------------------------------------------------ */
int nondet_int(void);
_Bool nondet_bool(void);

static struct Simcall* pick_sc(void)
{
  int i = nondet_int();
  __CPROVER_assume(0 <= i && i < 3);
  return i == 0 ? &g_sc0 : i == 1 ? &g_sc1 : &g_sc2;
}

static void setup(void)
{
  ACT(g_c).simcalls_.d   = g_sd;
  ACT(g_c).simcalls_.cap = SCAP + 1;
  for (int k = 0; k <= SCAP; k++)
    g_sd[k] = pick_sc();
  g_sc0.issuer_ = &g_p[0];
  g_sc1.issuer_ = &g_p[1];
  g_sc2.issuer_ = &g_p[2];
  for (int j = 0; j < 4; j++) {
    g_p[j].activities_.k   = g_ak[j];
    g_p[j].activities_.cap = 2;
  }
  g_c.from_                = nondet_bool() ? NULL : &g_h0;
  g_c.to_                  = nondet_bool() ? NULL : &g_h1;
  ACT(g_c).model_action_   = nondet_bool() ? NULL : &g_ma;
  g_c.src_actor_           = nondet_bool() ? NULL : &g_p[0];
  g_c.dst_actor_           = nondet_bool() ? NULL : &g_p[1];
  g_c.mbox_                = nondet_bool() ? NULL : &g_mbox;
  ACT(g_c).piface_         = nondet_bool() ? NULL : &g_iface.__b_Activity_T_Comm.__b_Activity;
  g_engine.maestro_        = &g_p[3];
  vf_exc                   = 0;
}

#ifdef H_finish
void harness(void)
{
  setup();
  CommImpl__finish(&g_c);
  VF_CANARY_POINT;
}
#endif
