/* ---------------- harnesses (hand-written part) ---------------- */
int nondet_int(void);
size_t nondet_size(void);
_Bool nondet_bool(void);

static void setup(struct Datatype* base, int through_a_duplicate)
{
  INIT_BASES;
  g_base = base;
  g_dup.duplicated_datatype_ = g_base;
  g_dtp = through_a_duplicate ? &g_dup : g_base;
  g_n = nondet_int();
  __CPROVER_assume(0 <= g_n && (size_t)g_n <= g_cap);
  g_len = g_n;
  g_nbytes = (size_t)g_n * ELEM_SIZE(g_base);
  vf_exc = 0;
}

