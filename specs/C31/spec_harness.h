/* ---------------- harnesses (hand-written part) ---------------- */
int nondet_int(void);
size_t nondet_size(void);
_Bool nondet_bool(void);

static void setup(void)
{
  INIT_BASES;
  size_t idx = nondet_size();
  __CPROVER_assume(idx < NKNOWN);
  g_base = g_known[idx];
  g_dup.duplicated_datatype_ = g_base;
  g_dtp = nondet_bool() ? &g_dup : g_base;
  g_n = nondet_int();
  __CPROVER_assume(0 <= g_n && g_n <= NMAX);
  g_len = g_n;
  g_nbytes = (size_t)g_n * ELEM_SIZE(g_base);
  g_a = malloc(g_nbytes);
  g_b = malloc(g_nbytes);
  g_b0 = malloc(g_nbytes);
  __CPROVER_assume(g_a != NULL && g_b != NULL && g_b0 != NULL);
  memcpy(g_b0, g_b, g_nbytes); /* inoutvec starts with arbitrary content; g_b0 remembers it */
  vf_exc = 0;
}

#ifdef H_replace
void harness(void)
{
  setup();
  replace_func(g_a, g_b, &g_len, &g_dtp);
  VF_CANARY_POINT;
}
#endif
#ifdef H_no_op
void harness(void)
{
  setup();
  no_func(g_a, g_b, &g_len, &g_dtp);
  VF_CANARY_POINT;
}
#endif
