#!/usr/bin/env python3
"""Pre-step of C31: writes <workdir>/spec.c (contracts, loop invariants, harnesses) for the 14 reduction functions.

What comes from where (so that the contract is not a copy of the unit):
  * which C type an MPI datatype has: read from the registry of the working tree, CREATE_MPI_DATATYPE(name, id, type, flag)
    in src/smpi/mpi/smpi_datatype.cpp (another file than the units);
  * what an operator computes and on which classes of datatypes: written below from the MPI standard (5.9.2), with the
    SimGrid extensions marked "ext";
  * which loop of the emitted C handles which datatype (names of the loop variables): parsed from gen.c; this only
    produces loop INVARIANTS, which are proved, never assumed.
usage: gen_spec.py <workdir> <repo>"""
import os
import re
import sys

wd, repo = sys.argv[1], sys.argv[2]

# ---------------------------------------------------------------- registry: datatype -> C type
CT = {"bool": "_Bool", "MPI_Aint": "long", "MPI_Offset": "long long", "unsigned int": "unsigned int"}
PAIR_STRUCTS = {"float_int", "long_int", "double_int", "short_int", "int_int", "float_float", "double_double",
                "long_double_int", "long_long"}
registry = {}
for l in open(os.path.join(repo, "src/smpi/mpi/smpi_datatype.cpp")):
    m = re.match(r"CREATE_MPI_DATATYPE\((\w+),\s*(-?\d+),\s*([^,]+?),\s*([\w|]+)\)", l)
    if m:
        name, _, t, flag = m.groups()
        t = t.strip()
        if t in PAIR_STRUCTS:
            t = "struct " + t
        m2 = re.match(r"(float|double|long double) _Complex$", t)
        if m2:
            t = "_Complex " + m2.group(1)
        registry[name] = (CT.get(t, t), flag)

# ---------------------------------------------------------------- MPI 5.9.2 classes
C_INT = ["INT", "LONG", "SHORT", "UNSIGNED_SHORT", "UNSIGNED", "UNSIGNED_LONG", "LONG_LONG", "UNSIGNED_LONG_LONG",
         "SIGNED_CHAR", "UNSIGNED_CHAR", "INT8_T", "INT16_T", "INT32_T", "INT64_T", "UINT8_T", "UINT16_T", "UINT32_T",
         "UINT64_T"]
EXT_INT = ["CHAR", "WCHAR"]  # ext: SimGrid reduces on character types like on integers
F_INT = ["INTEGER1", "INTEGER2", "INTEGER4", "INTEGER8"]
FP = ["FLOAT", "DOUBLE", "LONG_DOUBLE", "REAL", "REAL4", "REAL8", "REAL16"]
MULTI = ["AINT", "OFFSET", "COUNT"]
LOGICAL = ["C_BOOL"]
BYTE = ["BYTE"]
C_COMPLEX = ["C_FLOAT_COMPLEX", "C_DOUBLE_COMPLEX", "C_LONG_DOUBLE_COMPLEX"]
PAIRS = ["FLOAT_INT", "LONG_INT", "DOUBLE_INT", "SHORT_INT", "2INT", "2FLOAT", "2DOUBLE", "LONG_DOUBLE_INT", "2LONG",
         "COMPLEX8", "COMPLEX16", "COMPLEX32"]
INTS = C_INT + EXT_INT + F_INT + MULTI
SKIP = os.environ.get("C31_SKIP", "").split()  # datatypes whose value clause is left out (reported by the caller)

# op -> (datatypes with a value clause, datatypes that must merely not be rejected (value not specified here))
OPS = {
    "max": (INTS + FP, []), "min": (INTS + FP, []),
    "sum": (INTS + FP, C_COMPLEX + PAIRS), "prod": (INTS + FP, C_COMPLEX + PAIRS),
    "land": (INTS + FP + LOGICAL, []), "lor": (INTS + FP + LOGICAL, []), "lxor": (INTS + FP + LOGICAL, []),  # FP: ext
    "band": (INTS + LOGICAL + BYTE, []), "bor": (INTS + LOGICAL + BYTE, []), "bxor": (INTS + LOGICAL + BYTE, []),
    "minloc": (PAIRS, []), "maxloc": (PAIRS, []),
}


def is_fp(t):
    return t in ("float", "double", "long double")


def post(op, t, x, y0, y1):
    """postcondition relating x = invec[k], y0 = old inoutvec[k], y1 = new inoutvec[k] in C type t (MPI 5.9.2)"""
    if t.startswith("struct "):
        nan = ""
        # value/index pairs: MPI_MINLOC / MPI_MAXLOC (5.9.4): extreme value, lowest index on ties
        lt = "<" if op == "minloc" else ">"
        body = ("((%(x)s.value %(lt)s %(y0)s.value) ? (%(y1)s.value == %(x)s.value && %(y1)s.index == %(x)s.index) : "
                "(%(y0)s.value %(lt)s %(x)s.value) ? (%(y1)s.value == %(y0)s.value && %(y1)s.index == %(y0)s.index) : "
                "(%(y1)s.value == %(x)s.value && %(y1)s.index == (%(x)s.index < %(y0)s.index ? %(x)s.index : %(y0)s.index)))"
                % {"x": x, "y0": y0, "y1": y1, "lt": lt})
        return "(%s != %s || %s != %s || %s)" % (x + ".value", x + ".value", y0 + ".value", y0 + ".value", body)
    d = {"x": x, "y0": y0, "y1": y1, "t": t}
    if op in ("max", "min"):
        ge = ">=" if op == "max" else "<="
        body = "((%(y1)s == %(x)s || %(y1)s == %(y0)s) && %(y1)s GE %(x)s && %(y1)s GE %(y0)s)".replace("GE", ge) % d
        if is_fp(t):  # MPI says nothing about NaN operands
            return "(%(x)s != %(x)s || %(y0)s != %(y0)s || " % d + body + ")"
        return body
    if op in ("sum", "prod"):
        o = "+" if op == "sum" else "*"
        e = "((%(t)s)(%(y0)s OP %(x)s))".replace("OP", o) % d
        if is_fp(t):
            return "(%s == %s || (%s != %s && %s != %s))" % (y1, e, y1, y1, e, e)
        return "(%s == %s)" % (y1, e)
    if op in ("land", "lor", "lxor"):
        o = {"land": "&&", "lor": "||", "lxor": "!="}[op]
        return "(%(y1)s == (%(t)s)((%(x)s != 0) OP (%(y0)s != 0)))".replace("OP", o) % d
    if op in ("band", "bor", "bxor"):
        o = {"band": "&", "bor": "|", "bxor": "^"}[op]
        return "(%(y1)s == (%(t)s)(%(y0)s OP %(x)s))".replace("OP", o) % d
    raise SystemExit("no spec for " + op)


def same(t, u, v):
    if t.startswith("struct "):
        return "((%s.value == %s.value || (%s.value != %s.value && %s.value != %s.value)) && %s.index == %s.index)" % (
            u, v, u, u, v, v, u, v)
    if is_fp(t):
        return "(%s == %s || (%s != %s && %s != %s))" % (u, v, u, u, v, v)
    return "(%s == %s)" % (u, v)


# ---------------------------------------------------------------- loops of the emitted C
gen = open(os.path.join(wd, "gen.c")).read().split("\n")
loops = {}  # (func, k) -> (datatype, code ctype, suffix)
declared = set(re.findall(r"^struct Datatype smpi_MPI_(\w+);", "\n".join(gen), flags=re.M))
func = dt = xt = suf = None
for l in gen:
    m = re.match(r"/\* ---- unit (\w+) ---- \*/", l)
    if m:
        func = m.group(1)
    m = re.search(r"if \(datatype_base == \(+struct Datatype\*\)\(+void\*\)\(&\(smpi_MPI_(\w+)\)", l)
    if m:
        dt = m.group(1)
    m = re.match(r"\s*(.+?)\* x(_\d+)? = \(\(", l)
    if m:
        xt, suf = m.group(1).strip(), m.group(2) or ""
    m = re.match(r"\s*VF_LOOP_(\w+)_(\d+)\s*$", l)
    if m and not l.startswith("#") and int(m.group(2)) > 0:
        loops[(m.group(1), int(m.group(2)))] = (dt, xt, suf)

out = []
w = out.append
w("/* GENERATED by specs/C31/gen_spec.py from spec_head.h, gen.c and src/smpi/mpi/smpi_datatype.cpp -- do not edit */")
head1, head2 = open(os.path.join(wd, "spec_head.h")).read().split("/*@@GENERATED_MACROS@@*/")
w(head1)

known = sorted(declared - {"DATATYPE_NULL"})


def ctype_of(d):
    return registry[d][0] if d in registry else "char"


def tag(t):
    return re.sub(r"\W+", "_", t.replace("struct ", "S_"))


# one pair of typed buffers (+ the saved initial element) per C type: the harness points invec/inoutvec at the buffers
# of the registered type of the datatype under test, so every access in contracts and invariants is a typed array access
types = sorted({ctype_of(d) for d in known} | {"char"})
for t in types:
    w("%s g_old_%s;" % (t, tag(t)))
w("#define IS_BASE(p) (%s || (p) == &g_other_dt)" % " || ".join("(p) == &smpi_MPI_%s" % k for k in known))
sz = "sizeof(char)"
for k in known:
    sz = "(p) == &smpi_MPI_%s ? sizeof(%s) : %s" % (k, ctype_of(k), sz)
w("#define ELEM_SIZE(p) (%s)" % sz)
w("#define BASES_NOT_DUP (%s && g_other_dt.duplicated_datatype_ == &smpi_MPI_DATATYPE_NULL)" %
  " && ".join("smpi_MPI_%s.duplicated_datatype_ == &smpi_MPI_DATATYPE_NULL" % k for k in known))
w("#define INIT_BASES do { %s g_other_dt.duplicated_datatype_ = &smpi_MPI_DATATYPE_NULL; } while (0)" %
  " ".join("smpi_MPI_%s.duplicated_datatype_ = &smpi_MPI_DATATYPE_NULL;" % k for k in known))


def case(dname, obj, dup):
    t = ctype_of(dname) if dname else "char"
    # heap buffers of NMAX elements of the registered type, arbitrary initial content
    return ("{ g_a = malloc(sizeof(%s) * g_cap); g_b = malloc(sizeof(%s) * g_cap); __CPROVER_assume(g_a != NULL && g_b != NULL); "
            "g_old_%s = ((%s*)g_b)[gk]; setup(%s, %d); stmt; }" % (t, t, tag(t), t, obj, dup))


# one harness per (operator, datatype): with a constant datatype pointer the if-chain of the unit folds during symbolic
# execution (one cbmc run with a symbolic datatype, or one run with all cases, did not finish in 5 minutes)
w("#define PREPARE g_cap = nondet_size(); __CPROVER_assume(0 < g_cap && g_cap <= NMAX && gk < g_cap);")
cases = [(k, case(k, "&smpi_MPI_" + k, 0)) for k in known] + [("dup_INT", case("INT", "&smpi_MPI_INT", 1)),
                                                                 ("dup_2INT", case("2INT", "&smpi_MPI_2INT", 1)),
                                                                 ("other", case(None, "&g_other_dt", 0))]
w(head2)


def views(d):
    t = ctype_of(d)
    return "((%s*)g_a)[gk]" % t, "g_old_%s" % tag(t), "((%s*)g_b)[gk]" % t


harness = []
for op, (valued, noabort) in OPS.items():
    f = op + "_func"
    valued = [d for d in valued if d in registry and d not in SKIP]
    if not os.environ.get("C31_ALL"):
        # UNDECIDED, not claimed (minisat, kissat and z3 gave no answer in 5-10 minutes: two multiplier / floating-point
        # adder circuits whose inputs are only known equal through the invariant): every PROD value, SUM on floating point
        valued = [d for d in valued if not (op == "prod" or (op == "sum" and d in FP))]
    w("\n/* ================= MPI_%s ================= */" % op.upper())
    handled = [d for d in OPS[op][0] if d in registry] + noabort
    w("#define SUPPORTED_%s(p) (%s)" % (op, " || ".join("(p) == &smpi_MPI_%s" % d for d in handled)))
    nloops = max([k for (fn, k) in loops if fn == f] + [0])
    for k in range(1, nloops + 1):
        d, t, s = loops[(f, k)]
        x, y, i = "x" + s, "y" + s, "i" + s
        rt = ctype_of(d)
        xa, old, yb = views(d)
        untouched = "(!((size_t)%s <= gk) || %s)" % (i, same(rt, "%s[gk]" % y, old))
        if d not in valued:
            # no value clause for this datatype: the loop still needs frame, variant and "the rest is untouched"
            inv = "0 <= %s && %s <= *length && g_base == &smpi_MPI_%s && %s" % (i, i, d, untouched)
        else:
            inv = "0 <= %s && %s <= *length && g_base == &smpi_MPI_%s && (!(gk < (size_t)%s) || %s) && %s" % (
                i, i, d, i, post(op, rt, xa, old, "%s[gk]" % y), untouched)
        w("#define VF_LOOP_%s_%d __CPROVER_assigns(%s, __CPROVER_object_whole(%s)) __CPROVER_loop_invariant(%s) "
          "__CPROVER_decreases(*length - %s)" % (f, k, i, y, inv, i))
    w("void %s(void* a, void* b, int* length, struct Datatype** datatype)" % f)
    w("    __CPROVER_requires(OP_PRE)")
    w("    __CPROVER_assigns(vf_exc, __CPROVER_object_whole(b))")
    w("    __CPROVER_ensures(SUPPORTED_%s(g_base) ? vf_exc == 0 : vf_exc == VF_EXC_ABORT) /*@ %s_rejects_exactly_unsupported_datatypes */"
      % (op, op))
    for d in known:
        xa, old, yb = views(d)
        w("    __CPROVER_ensures(g_base != &smpi_MPI_%s || (vf_exc == 0 && gk < (size_t)g_n) || %s) /*@ %s_untouched_beyond_n_or_when_rejected_MPI_%s */"
          % (d, same(ctype_of(d), yb, old), op, d))
    for d in valued:
        xa, old, yb = views(d)
        w("    __CPROVER_ensures(g_base != &smpi_MPI_%s || !(gk < (size_t)g_n) || %s) /*@ %s_MPI_%s */" %
          (d, post(op, ctype_of(d), xa, old, yb), op, d))
    w("    ;")
    for cn, body in cases:
        harness.append("#ifdef H_%s_%s\nvoid harness(void)\n{\n  PREPARE\n  %s\n  VF_CANARY_POINT;\n}\n#endif"
                       % (op, cn, body.replace("stmt;", "%s(g_a, g_b, &g_len, &g_dtp);" % f)))

w("\n#include \"gen.c\"\n")
w(open(os.path.join(wd, "spec_harness.h")).read())
for fn, hn in (("replace_func", "replace"), ("no_func", "no_op")):
    for cn, body in cases:
        if cn in ("INT", "LONG_DOUBLE_INT", "dup_INT", "other"):
            harness.append("#ifdef H_%s_%s\nvoid harness(void)\n{\n  PREPARE\n  %s\n  VF_CANARY_POINT;\n}\n#endif"
                           % (hn, cn, body.replace("stmt;", "%s(g_a, g_b, &g_len, &g_dtp);" % fn)))
w("\n".join(harness))
if os.environ.get("C31_LIST"):
    import json
    json.dump({"cases": [c for c, _ in cases], "ops": {op: {"valued": [d for d in v if d in registry], "noabort": n}
                                                        for op, (v, n) in OPS.items()}}, open(os.environ["C31_LIST"], "w"))
open(os.path.join(wd, "spec.c"), "w").write("\n".join(out) + "\n")
