/* C31 — predefined reduction operators compute the element-wise result MPI defines (hand-written part).
 * Units: the 14 *_func functions of src/smpi/mpi/smpi_op.cpp (each a macro-generated if-chain of typed loops).
 * For every operator, every datatype, every length n and every buffer content:
 *   - a datatype the operator supports: for a ghost index gk < n, inoutvec'[gk] = invec[gk] OP inoutvec[gk] in the C
 *     type REGISTERED for that datatype (smpi_datatype.cpp), invec untouched (frame);
 *   - any other datatype: the call is rejected (xbt_die -> VF_EXC_ABORT) and inoutvec is untouched.                  */
#include "gen.h"
#include <stdint.h>
#include <wchar.h>

#ifndef NMAX
#define NMAX 1000000 /* largest buffer the harness allocates, in elements; the loops are closed by invariants */
#endif

struct Datatype g_other_dt; /* stands for every datatype that no operator knows (MPI_PACKED, MPI_CXX_BOOL, derived...) */
struct Datatype g_dup;      /* a duplicate (MPI_Type_dup) of the base datatype */
struct Datatype* g_base;    /* the basic datatype the reduction runs on */
struct Datatype* g_dtp;     /* the datatype argument: g_base or its duplicate */
void *g_a, *g_b;           /* invec, inoutvec: the typed buffers (generated below) of the datatype under test */
int g_len, g_n;
size_t g_cap;              /* elements allocated in each buffer (>= n: the elements beyond n must stay untouched) */
size_t g_nbytes;
size_t gk; /* ghost element index */
size_t gb; /* ghost byte index (MPI_REPLACE) */
size_t nondet_size(void);
static void setup(struct Datatype* base, int through_a_duplicate);

#define OP_PRE                                                                                                         \
  (a == g_a && b == g_b && length == &g_len && datatype == &g_dtp && g_len == g_n && 0 <= g_n && (size_t)g_n <= g_cap &&        \
   vf_exc == 0 && IS_BASE(g_base) && BASES_NOT_DUP && g_dup.duplicated_datatype_ == g_base &&                          \
   (g_dtp == g_base || g_dtp == &g_dup) && g_nbytes == (size_t)g_n * ELEM_SIZE(g_base))

/* loop 0 of every operator follows duplicated_datatype() down to the basic datatype: the harness builds chains of
 * length 0 and 1, the loop is unwound 3 times with an unwinding assertion (check.json "unwindset") */
/*@@GENERATED_MACROS@@*/
/* assumed callee: size() of a basic datatype or of its duplicate = sizeof the registered C type */
size_t Datatype__size(struct Datatype* self) __CPROVER_requires(self == g_dtp) __CPROVER_assigns()
    __CPROVER_ensures(__CPROVER_return_value == ELEM_SIZE(g_base) && vf_exc == 0);

/* MPI_REPLACE: inoutvec' = invec, byte for byte; MPI_NO_OP: nothing changes */
void replace_func(void* a, void* b, int* length, struct Datatype** datatype)
    __CPROVER_requires(OP_PRE)
    __CPROVER_assigns(__CPROVER_object_whole(b))
    __CPROVER_ensures(vf_exc == 0)
#ifdef C31_REPLACE_BYTES /* not claimed: CBMC's model of memcpy with a symbolic length does not decide this clause */
    __CPROVER_ensures(!(gb < g_nbytes) || ((char*)g_b)[gb] == ((char*)g_a)[gb]) /*@ replace_copies_every_byte */
#endif
    ;

void no_func(void* a, void* b, int* length, struct Datatype** datatype)
    __CPROVER_requires(OP_PRE)
    __CPROVER_assigns()
    __CPROVER_ensures(vf_exc == 0) /*@ no_op_changes_nothing */;
