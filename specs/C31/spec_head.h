/* C31 — predefined reduction operators compute the element-wise result MPI defines (hand-written part).
 * Units: the 14 *_func functions of src/smpi/mpi/smpi_op.cpp (each a macro-generated if-chain of typed loops).
 * For every operator, every datatype, every length n and every buffer content:
 *   - a datatype the operator supports: for a ghost index gk < n, inoutvec'[gk] = invec[gk] OP inoutvec[gk] in the C
 *     type REGISTERED for that datatype (smpi_datatype.cpp), invec untouched (frame);
 *   - any other datatype: the call is rejected (xbt_die -> VF_EXC_ABORT) and inoutvec is untouched.                  */
#include "gen.h"
#include <stdint.h>
#include <wchar.h>

#ifndef NMAX
#define NMAX 1000000 /* element count bound of the harness allocation only; the loops are closed by invariants */
#endif

struct Datatype g_other_dt; /* stands for every datatype that no operator knows (MPI_PACKED, MPI_CXX_BOOL, derived...) */
struct Datatype g_dup;      /* a duplicate (MPI_Type_dup) of the base datatype */
struct Datatype* g_base;    /* the basic datatype the reduction runs on */
struct Datatype* g_dtp;     /* the datatype argument: g_base or its duplicate */
void *g_a, *g_b, *g_b0;     /* invec, inoutvec, copy of the initial inoutvec */
int g_len, g_n;
size_t g_nbytes;
size_t gk; /* ghost element index */
size_t gb; /* ghost byte index */

#define OP_PRE                                                                                                         \
  (a == g_a && b == g_b && length == &g_len && datatype == &g_dtp && g_len == g_n && 0 <= g_n && g_n <= NMAX &&        \
   vf_exc == 0 && IS_BASE(g_base) && BASES_NOT_DUP && g_dup.duplicated_datatype_ == g_base &&                          \
   (g_dtp == g_base || g_dtp == &g_dup) && g_nbytes == (size_t)g_n * ELEM_SIZE(g_base))

/* loop 0 of every operator: follow duplicated_datatype() down to the basic datatype (chain of length <= 1 here) */
#define VF_DUP_LOOP                                                                                                    \
  __CPROVER_assigns(datatype_base)                                                                                     \
  __CPROVER_loop_invariant(datatype_base == g_base || (datatype_base == &g_dup && g_dtp == &g_dup))                   \
  __CPROVER_decreases(datatype_base == &g_dup && g_base != &g_dup ? 1 : 0)

/*@@GENERATED_MACROS@@*/
/* assumed callee: size() of a basic datatype or of its duplicate = sizeof the registered C type */
size_t Datatype__size(struct Datatype* self) __CPROVER_requires(self == g_dtp) __CPROVER_assigns()
    __CPROVER_ensures(__CPROVER_return_value == ELEM_SIZE(g_base) && vf_exc == 0);

/* MPI_REPLACE: inoutvec' = invec, byte for byte; MPI_NO_OP: nothing changes */
void replace_func(void* a, void* b, int* length, struct Datatype** datatype)
    __CPROVER_requires(OP_PRE)
    __CPROVER_assigns(__CPROVER_object_whole(b))
    __CPROVER_ensures(vf_exc == 0)
    __CPROVER_ensures(!(gb < g_nbytes) || ((char*)g_b)[gb] == ((char*)g_a)[gb]) /*@ replace_copies_every_byte */;

void no_func(void* a, void* b, int* length, struct Datatype** datatype)
    __CPROVER_requires(OP_PRE)
    __CPROVER_assigns()
    __CPROVER_ensures(vf_exc == 0) /*@ no_op_changes_nothing */;
