#!/bin/bash
# Mutation verification station: scratch worktree /tmp/station with its own build (same cmake options as /repo/_build).
# usage: station.sh <patch.diff|-> : apply the patch, rebuild incrementally, run the 104 pinned tests, revert.
# exit 0: builds and all pinned tests pass; 1: build failure; 2: some pinned test fails.
set -u
ST=/tmp/station
patch=${1:--}
cd $ST || exit 3
git checkout -q -- . 2>/dev/null
if [ "$patch" != "-" ]; then git apply "$patch" || { echo "patch does not apply"; exit 3; }; fi
nice -n 5 cmake --build _build -j8 > /tmp/station_inc.log 2>&1 || { echo "BUILD FAILED"; tail -20 /tmp/station_inc.log; git checkout -q -- .; exit 1; }
names=$(python3 -c "
import json; d=json.load(open('/root/.vp/BASELINE.json'))
print('|'.join(sorted(set(s.split('::')[0] for s in d['stable_pass']))))")
ctest --test-dir _build -j8 --timeout 900 -R "^($names)\$" > /tmp/station_ctest.log 2>&1
rc=$?
tail -4 /tmp/station_ctest.log
grep -E "\*\*\*Failed|Timeout" /tmp/station_ctest.log | head
git checkout -q -- .
[ $rc -eq 0 ] && exit 0 || exit 2
