#!/bin/bash
# Offline setup: nothing to build (python3 + cbmc + clang are pre-installed); verify the tools are there.
set -e
cd "$(dirname "$0")/.."
for t in cbmc goto-cc goto-instrument clang++ g++ python3; do command -v $t >/dev/null || { echo "missing tool: $t"; exit 1; }; done
mkdir -p out evidence
echo "vf setup ok"
