#!/bin/bash
# Verify one seeded change: usage seed_verify.sh <PID> <scratch worktree> <candidate dir> <name> [nostation]
# 1. demo passes on the pristine scratch tree, fails with the patch; 2. the pinned tests still pass with the patch
# (station.sh: separate build); 3. what /verif's check for <PID> says about the patched tree (VF_REPO=<worktree>).
# Writes /verif/seeded/<PID>/<name>/{patch.diff,demo.cpp,notes.md,meta.json}.
PID=$1; WT=$2; D=$3; NAME=$4; NOST=${5:-}
OUT=/verif/seeded/$PID/$NAME
mkdir -p $OUT
cp $D/patch.diff $D/demo.cpp $OUT/ 2>/dev/null; cp $D/notes.md $D/build.sh $D/build_and_run.sh $D/*.hpp $OUT/ 2>/dev/null
EXE=/tmp/demo_${PID}_$NAME
build() {
  rm -f $EXE $D/demo
  if [ -f $D/build_and_run.sh ]; then return 0; fi
  if [ -f $D/build.sh ]; then (cd $D && sh ./build.sh > /tmp/demo_build_$PID.log 2>&1; [ -f demo ] && cp demo $EXE); else
  (cd $D && g++ -std=gnu++20 -fno-access-control -DNDEBUG -w -I$WT/include -I$WT -I/repo/_build/include -I/repo/_build -I$WT/src/smpi/include -I/usr/include/eigen3 demo.cpp -o $EXE -L/repo/_build/lib -lsimgrid -Wl,-rpath,/repo/_build/lib 2>&1 | tail -5); fi
}
rundemo() { # $1 = output file
  if [ -f $D/build_and_run.sh ]; then (cd $D && timeout 600 sh ./build_and_run.sh > $1 2>&1); return $?; fi
  (cd $D && timeout 600 $EXE ${DEMO_ARGS:-} > $1 2>&1); return $?
}
git -C $WT checkout -q -- . ; git -C $WT stash list >/dev/null
build; rundemo $OUT/demo_pristine.out; rc_pristine=$?
git -C $WT apply $D/patch.diff || { echo "patch does not apply"; exit 3; }
build; rundemo $OUT/demo_patched.out; rc_patched=$?
SAME=""
if [ -n "${FASTMISS:-}" ] && ! grep -q '"native_lemmas"\|"pre"' /verif/specs/$PID/check.json; then
  # the verifier's whole input is the C text extracted from the units: when it is byte-identical for the pristine and the
  # patched tree, the verdict on the patched tree is the verdict on the pristine tree (exit 0) and need not be recomputed
  X=/tmp/xcmp_${PID}_$NAME; rm -rf $X; mkdir -p $X/a $X/b
  git -C $WT apply -R $D/patch.diff
  (cd /verif && VF_REPO=$WT python3 cxx2c/cxx2c.py specs/$PID/units.json $X/a > $X/a.log 2>&1); ra=$?
  git -C $WT apply $D/patch.diff
  (cd /verif && VF_REPO=$WT python3 cxx2c/cxx2c.py specs/$PID/units.json $X/b > $X/b.log 2>&1); rb=$?
  if [ $ra -eq 0 ] && [ $rb -eq 0 ] && cmp -s $X/a/gen.c $X/b/gen.c && cmp -s $X/a/gen.h $X/b/gen.h; then
    SAME=1; rc_vf=0
    echo "extracted C (gen.c, gen.h) is byte-identical for the pristine and the patched tree: the changed code is outside the units under contract of $PID; the check's verdict is the one of the pristine tree (exit 0)" > $OUT/vf_check.out
  fi
  rm -rf $X
fi
if [ -n "$SAME" ]; then :; elif [ -z "${NOVF:-}" ]; then (cd /verif && VF_REPO=$WT VF_JOBS=${VF_JOBS:-6} ./vf check $PID ${VF_ONLY:+--only $VF_ONLY} > $OUT/vf_check.out 2>&1); rc_vf=$?; else rc_vf=$(python3 -c "import json;print(json.load(open('$OUT/meta.json'))['vf_check_exit'])" 2>/dev/null || echo -1); fi
git -C $WT checkout -q -- .
rc_station=skipped
if [ -z "$NOST" ]; then /verif/tools/station.sh $D/patch.diff > $OUT/station.out 2>&1; rc_station=$?; fi
python3 - <<EOF
import json,re
vio=[l.strip() for l in open("$OUT/vf_check.out") if l.startswith("VIOLATION") or l.startswith("  obligation")]
meta={"property":"$PID","name":"$NAME","demo_exit_pristine":$rc_pristine,"demo_exit_patched":$rc_patched,
      "pinned_tests_with_patch":"$rc_station" if "$rc_station"=="skipped" else ("pass" if "$rc_station"=="0" else "FAIL rc=$rc_station"),
      "vf_check_exit":$rc_vf,"caught": $rc_vf==1,"violations":vio[:12],
      "ran":["demo on pristine scratch worktree and with patch","tools/station.sh (separate build + the 104 pinned tests)","VF_REPO=<scratch> ./vf check $PID" + (" --only ${VF_ONLY:-}" if "${VF_ONLY:-}" else "")]}
json.dump(meta,open("$OUT/meta.json","w"),indent=1)
print(json.dumps({k:meta[k] for k in ("demo_exit_pristine","demo_exit_patched","pinned_tests_with_patch","vf_check_exit")}))
EOF
rm -f $EXE
