#!/usr/bin/env python3
"""Validates MANIFEST.json and every evidence/<ID>.json against the schemas in /root/.vp (run with python3-vt, which has
jsonschema), plus the cross-checks the schemas only describe in words: a proof-level record has discharged ==
obligations and no violations; the evidence level is the one claimed in the manifest; every claimed property has an
evidence file written by a run on the quick or thorough tier."""
import json
import os
import sys

import jsonschema

ROOT = os.path.dirname(os.path.dirname(os.path.abspath(__file__)))
VP = "/root/.vp"
bad = 0


def err(msg):
    global bad
    bad += 1
    print("INVALID:", msg)


man = json.load(open(os.path.join(ROOT, "MANIFEST.json")))
try:
    jsonschema.validate(man, json.load(open(os.path.join(VP, "MANIFEST.schema.json"))))
except jsonschema.ValidationError as e:
    err("MANIFEST.json: %s at %s" % (e.message[:200], list(e.absolute_path)))
props = [json.loads(l)["id"] for l in open(os.path.join(ROOT, "properties.jsonl")) if l.strip()]
claimed = [c["property_id"] for c in man["checks"]]
na = [n["property_id"] for n in man.get("not_applicable", [])]
for p in props:
    if (p in claimed) == (p in na):
        err("%s must be either claimed or not_applicable (exactly one)" % p)
es = json.load(open(os.path.join(VP, "EVIDENCE.schema.json")))
for c in man["checks"]:
    pid = c["property_id"]
    ep = os.path.join(ROOT, "evidence", pid + ".json")
    if not os.path.exists(ep):
        err("%s: no evidence file" % pid)
        continue
    ev = json.load(open(ep))
    try:
        jsonschema.validate(ev, es)
    except jsonschema.ValidationError as e:
        err("%s: %s at %s" % (pid, e.message[:200], list(e.absolute_path)))
    cov = ev.get("coverage", {})
    if ev.get("level") != c["level_claimed"]["category"]:
        err("%s: evidence level %s != manifest %s" % (pid, ev.get("level"), c["level_claimed"]["category"]))
    if ev.get("level") == "proof" and cov.get("obligations") != cov.get("discharged"):
        err("%s: proof level but discharged %s != obligations %s" % (pid, cov.get("discharged"), cov.get("obligations")))
    if ev.get("violations"):
        err("%s: evidence records %s violations (stale file from a mutation run?)" % (pid, ev.get("violations")))
    if not cov.get("obligations"):
        err("%s: zero obligations" % pid)
print("validated %d claimed, %d not applicable: %s" % (len(claimed), len(na), "OK" if not bad else "%d problems" % bad))
sys.exit(1 if bad else 0)
