#!/usr/bin/env python3
"""Adds to seeded/<ID>/<name>/meta.json what cannot be measured by seed_verify.sh alone: what the change needs in order
to manifest (from the seeding agent's notes), how the pinned tests were run for it (alone or in a group of patches
touching disjoint files), and whether the check was strengthened after first missing it."""
import glob
import json
import os

ROOT = os.path.dirname(os.path.dirname(os.path.abspath(__file__)))
FLAKY = ("tesh-self-catch-all-bg-output / tesh-self-background / tesh-self-set-output-sort are timing-sensitive self-tests "
         "of the tesh script (no libsimgrid code); under the load of this session they fail also on the unpatched tree and "
         "pass when rerun alone")
NEEDS = {
    "unlock-depth-reversed": "recursive mutex handed over to a blocked locker who then re-locks it recursively",
    "trylock-depth-dropped": "recursive mutex whose outermost acquisition is a try_lock on a free mutex, then a re-acquisition",
    "int-rejection-off-by-one": "a raw generator output exactly equal to the rejection limit (probability 2^-32 per draw)",
    "real-interpolation-rewritten": "a degenerate or extremely narrow interval (min == max or a few ulps apart)",
    "both-create-folded": "two different actors both about to create a child (ACTOR_CREATE vs ACTOR_CREATE)",
    "sem-lock-capacity-threshold": "two actors locking the same semaphore while exactly one token is left",
    "prefix-scale-integer-wrap": "a value written with a zetta/yotta (Z, Y, Zi, Yi) prefix",
    "zero-skips-unit-validation": "a number that parses to zero followed by an invalid unit or trailing junk",
    "int-narrowed-before-range-check": "an int item set from a string outside int but inside long (e.g. 4294967297)",
    "callback-skipped-on-same-value": "an invalid value rejected by the callback, then the same value set again",
    "dict-remove-head-drops-chain": "two keys colliding in one bucket, removal of the first-inserted while the other remains",
    "dynar-sparse-set-stale-gap": "grow the dynar, shrink it, then a sparse set past the end",
    "destroy-skips-flush-same-date": "two containers destroyed at the same simulated date with an event in between",
    "insert-older-than-all-at-index-1": "an event strictly older than everything in a non-empty trace buffer",
    "recv-eager-threshold-inclusive": "non-zero eager threshold T, receive of exactly T bytes posted before the send",
    "size-adjust-before-sequence-check": "a refused out-of-order candidate smaller than the buffer, then a fitting message",
    "expand-wakes-only-one-constraint": "variable on two limited constraints gets staged by expand on the second one",
    "reused-element-counter-drift": "same variable expanded twice on one constraint with weights summing across 1 (0.5+0.5)",
    "move-onto-itself-loses-bytes": "File::move of a file onto its own name",
    "seek-past-end-skips-update": "one-argument seek strictly past the end of file followed by a read",
    "descending-range-drops-last": "descending rank range (stride < 0) whose walk lands exactly on `last`",
    "split-ties-by-actor-id": "communicator whose rank order differs from actor-id order, split with equal keys",
    "swap-pop-removal-breaks-fifo": "at least 3 operations of the same kind pending on one message queue",
    "remove-erases-tail": "withdrawal (actor exit / cancel) of a pending message that has later ones queued behind it",
    "empty-vector-contiguous-shortcut": "MPI_Type_vector with count 0 and stride != blocklength, nested in another type",
    "hindexed-serialize-skips-empty-block": "indexed type with a zero-length block followed by a non-empty one, on the send side",
    "irecv-skips-lookup-behind-filtered-recv": "a filtered receive waiting, a send it rejects queued behind it, then an unfiltered get",
    "queued-filter-skipped-without-match-data": "a filtered receive posted before a plain put (no match data)",
    "fastpath-drops-straddling-block": "first byte of the message strictly inside a private block of a partially shared buffer",
    "receiver-framed-with-sender-offset": "partially shared receive buffer at a different offset than the send buffer",
    "topological-order-ignores-outside-causes": "event set that is not causally closed (a < b < c with b missing)",
    "history-iterator-keeps-visited-maximal": "a visiting order where an initial event is popped before its descendant reaches it",
    "on-time-check-uses-stale-action": "timed wait issued before the activity has a model action, completion exactly at the deadline",
    "wait-any-zero-timeout-ignored": "wait_any_for(0) while no activity of the set is finished",
    "dax-zero-size-file-drops-edge": "DAX workflow whose only edge between two jobs is a file of size 0",
    "json-parent-listed-later-dropped": "JSON workflow listing a task before one of its parents",
    "racing-check-only-last-kept": "4 actors: two unordered racing events plus an older event ordered before only one of them",
    "clock-skips-actor-with-stale-entry": "5 events with a back-and-forth between two actors, depends on actor-id order",
    "maxloc-ties-highest-index": "MPI_MAXLOC with at least two contributions holding the maximum at different indexes",
    "uint64-reduced-as-signed": "MPI_MAX/MPI_MIN on MPI_UINT64_T with one operand >= 2^63 and one below",
    "rank-negative-multiple-wrap": "periodic dimension, negative coordinate that is an exact multiple of the dimension size",
    "dims-create-divisibility-regressed": "two non-zero entries each dividing nnodes but not their product, plus a zero entry",
    "timeout-cancel-swap-with-last": "3 waiters queued, the one timing out at least two slots before the tail, then a release",
    "release-grants-only-blocked-waiter": "MC/replay mode: release between another actor's SEM_ASYNC_LOCK and its SEM_WAIT",
    "release-loop-keeps-unblocked-entries": "MC/replay two-simcall wait plus more than n arrivals on one barrier",
    "s4u-fast-path-last-arriver": "two actors reaching a barrier that holds n-1 waiters in the same scheduling round",
    "cancel-erases-from-copy": "a wait_for that really times out, later a notify_one meant for another waiter",
    "signal-grants-only-blocked-waiter": "MC/replay mode: notify between the waiter's CONDVAR_ASYNC_LOCK and CONDVAR_WAIT",
    "mc-timeout-loses-cancel": "MC-mode timeout of wait_for followed by a notify_one",
    "from-variable-early-exit": "two modifications in one round (capacity change then resume) or a wake-up from var_free",
    "no-recursion-through-fatpipe": "closure arriving on a FATPIPE constraint shared by variables that use other constraints",
    "waitany-count-mismatch": "model checker run with a wait_any set mixing communications and another activity kind",
    "link-failure-skips-disabled-variables": "link turned off while one comm on it transfers data and another is still in its latency phase (or suspended)",
    "ptask-failure-checks-first-host-only": "multi-host parallel execution an actor waits on, failing host not the first of the list",
    "suspended-yield-skips-recheck": "actor suspended by another actor in the very round one of its simcalls is answered, then killed or re-suspended",
    "restart-shares-on-exit-list": "auto-restart actor rebooted twice, an on_exit callback registered on the second incarnation",
    "expand-activates-only-enabled": "non-selective system, variable created with penalty 0 expanded on an idle constraint, enabled later",
    "maxmin-light-tab-stale-backpointer": "the last live constraint saturates first and is touched again in the same solve (weight-0 element or ratio below precision)",
    "fatpipe-usage-wrong-penalty": "FATPIPE constraint shared by two variables with different penalties, one fixed in an earlier round",
    "bmf-check-any-instead-of-all": "bmf solver stopped by bmf/max-iterations on an intermediate allocation that respects capacities",
    "maxmin-absolute-precision-selection": "constraint with a capacity in (0, 1e-5]",
    "loop-delay-index-drift": "looping profile with slack after its last point, simulated beyond the second period",
    "ti-solve-wrap-test-full-amount": "TI cpu model, periodic non-uniform speed profile, exec of at least one full period of work",
    "watts-use-current-pstate-speed": "pstate change while an exec runs on the host, no other energy update at that date",
    "exec-start-update-skipped-when-busy": "multi-core host, a second exec starts while one is running, no coincident update on the host",
    "bypass-search-bounded-by-min-depth": "3-level platform, bypassZoneRoute in the common ancestor, end points at different depths below it",
    "floyd-intermediate-zone-leg-reversed": "Floyd zone of sub-zones, multi-hop zone path through a zone with two distinct gateways and an asymmetric inner route",
    "dijkstra-cache-early-exit": "DijkstraCache zone, two queries from one source: a near destination first, then a farther one",
    "floyd-skips-direct-routes": "Floyd zone with a declared one-hop route of 3+ links and a shorter chain of routes",
    "torus-odd-dimension-wrap-tie": "torus dimension of odd size, source above d/2 and target exactly (src + d/2) % d",
    "star-dedup-adjacent-only": "star zone where a link is repeated non-adjacently (limiter link on a self route, two shared centre links)",
    "suspend-skips-lazy-update-when-current": "lazy model, action last updated at the very date of the suspend (get_remaining or a solve), suspension > 0 s",
    "disk-write-bandwidth-updates-read-constraint": "write bandwidth of a sealed disk changed at run time, then I/O on that disk",
    "raw-model-caches-tcp-gamma": "network/model:raw (or a run-time change of network/TCP-gamma) and bandwidth*2*latency above the window",
    "ptask-cpu-bound-breaks-at-zero-flops": "parallel task listing a 0-flop part before the dominant part, the latter on a multicore host",
    "hindexed-serialize-stops-at-empty-block": "indexed type with a zero-length block followed by a non-empty one, on the send side (re-based on the repaired serialize)",
    "sem-capacity-clamped":"semaphore with no token left and at least one queued actor when a lock/unlock is reported",
}
STATION = {  # name -> how the pinned tests were run with the change
    "unlock-depth-reversed": "pass (alone)", "trylock-depth-dropped": "pass (alone)", "int-rejection-off-by-one": "pass (alone)",
    "real-interpolation-rewritten": "pass (alone; 103/104, the 1 failure is load flakiness: " + FLAKY + ")",
}
G = {
    "G1": (["both-create-folded", "prefix-scale-integer-wrap", "int-narrowed-before-range-check",
            "dict-remove-head-drops-chain", "destroy-skips-flush-same-date", "recv-eager-threshold-inclusive",
            "expand-wakes-only-one-constraint"], "103/104; the 1 failure (tesh-self-catch-all-bg-output) is load flakiness: " + FLAKY),
    "G2": (["sem-lock-capacity-threshold", "zero-skips-unit-validation", "callback-skipped-on-same-value",
            "dynar-sparse-set-stale-gap", "insert-older-than-all-at-index-1", "size-adjust-before-sequence-check",
            "reused-element-counter-drift"], "104/104"),
    "G3": (["move-onto-itself-loses-bytes", "descending-range-drops-last", "swap-pop-removal-breaks-fifo",
            "empty-vector-contiguous-shortcut"], "104/104"),
    "G4": (["seek-past-end-skips-update", "split-ties-by-actor-id", "remove-erases-tail",
            "hindexed-serialize-skips-empty-block"], "102/104; the 2 failures (tesh-self-background, tesh-self-catch-all-bg-output) are load flakiness: " + FLAKY),
}
G.update({
    "G5": (["irecv-skips-lookup-behind-filtered-recv", "queued-filter-skipped-without-match-data"], "104/104"),
    "G6": (["rank-negative-multiple-wrap", "topological-order-ignores-outside-causes", "maxloc-ties-highest-index",
            "on-time-check-uses-stale-action", "racing-check-only-last-kept", "fastpath-drops-straddling-block"], "104/104"),
    "G7": (["dims-create-divisibility-regressed", "history-iterator-keeps-visited-maximal", "uint64-reduced-as-signed",
            "wait-any-zero-timeout-ignored", "clock-skips-actor-with-stale-entry", "receiver-framed-with-sender-offset"], "104/104"),
})
G.update({
    "G8": (["from-variable-early-exit", "timeout-cancel-swap-with-last", "waitany-count-mismatch",
            "release-loop-keeps-unblocked-entries", "cancel-erases-from-copy", "dax-zero-size-file-drops-edge"], "104/104"),
    "G9": (["no-recursion-through-fatpipe", "release-grants-only-blocked-waiter", "sem-capacity-clamped",
            "s4u-fast-path-last-arriver", "signal-grants-only-blocked-waiter", "json-parent-listed-later-dropped"],
           "103/104; the 1 failure (tesh-self-background) is load flakiness: " + FLAKY),
    "G10": (["mc-timeout-loses-cancel"], "104/104"),
})
G11B = ["link-failure-skips-disabled-variables", "suspended-yield-skips-recheck", "fatpipe-usage-wrong-penalty",
        "loop-delay-index-drift", "watts-use-current-pstate-speed", "bypass-search-bounded-by-min-depth",
        "dijkstra-cache-early-exit", "torus-odd-dimension-wrap-tie", "hindexed-serialize-stops-at-empty-block"]
# (the first run of this group also held a C15 candidate that broke java-energy_exec_ptask and
# java-exec_ptask_multicore_latency: found by bisection, discarded, the group re-run without it)
G12 = ["ptask-failure-checks-first-host-only", "restart-shares-on-exit-list", "maxmin-light-tab-stale-backpointer",
       "bmf-check-any-instead-of-all", "ti-solve-wrap-test-full-amount", "exec-start-update-skipped-when-busy",
       "floyd-intermediate-zone-leg-reversed", "floyd-skips-direct-routes", "star-dedup-adjacent-only"]
G13 = ["maxmin-absolute-precision-selection", "suspend-skips-lazy-update-when-current",
       "disk-write-bandwidth-updates-read-constraint", "raw-model-caches-tcp-gamma", "ptask-cpu-bound-breaks-at-zero-flops"]
G.update({"G12": (G12, "104/104"), "G13": (G13, "104/104")})
lp = "/tmp/station_seeds_G11b.log"
if os.path.exists(lp) and "100% tests passed" in open(lp).read():
    G["G11"] = (G11B, "104/104")
for g, (names, res) in G.items():
    for n in names:
        if len(names) == 1:
            STATION[n] = "pass (alone): " + res
            continue
        STATION[n] ="pass, tested together with the other patches of group %s (disjoint files): %s" % (g, res)
STRENGTHENED = {
    "real-interpolation-rewritten": "first run undecided (cvc5 timeout on the mutated formula); the uniform_real obligations now run as a SAT/cvc5 solver race and SAT refutes the mutant in 7 s",
    "prefix-scale-integer-wrap": "first run missed (the table generator is outside cxx2c's subset); C27 now enumerates the real tables natively (specs/C27/tables.cpp)",
    "sem-lock-capacity-threshold": "first run missed (only the mutex group had commutation lemmas); C39 now has semaphore LOCK/UNLOCK commutation harnesses on the real SemaphoreImpl code",
    "recv-eager-threshold-inclusive": "first run missed (Request::start was not a unit); C28 now has the mailbox-choice contract of Request::start",
    "destroy-skips-flush-same-date": "first run missed (Container::~Container was not a unit); C47 now has the destructor's flush-before-signal contract",
    "uint64-reduced-as-signed": "first run missed in the quick tier (the MPI_UINT64_T cases ran in the thorough tier only); max/min on MPI_UINT64_T are in the quick tier now",
    "rank-negative-multiple-wrap": "first run missed (the wrapped-value clause of Cart_rank is undecided for 4 dimensions and not claimed); C33 now has a lemma on the real body of rank for 1- and 2-dimensional topologies",
    "s4u-fast-path-last-arriver": "first run missed (s4u::Barrier::wait was not a unit); C07 now has the contract of Barrier::wait over a model of the simcall layer (exact event sequence)",
    "irecv-skips-lookup-behind-filtered-recv": "first run missed (the receive side was not under contract); C08 now has the contract of CommImpl::irecv (oldest acceptable send, else queued at the tail)",
    "expand-wakes-only-one-constraint": "first run missed (System::expand was not a unit; an earlier 'caught' was a failure of the unpatched tree that the repair 1117e72944 removed); C18 now has the contract of System::expand",
    "reused-element-counter-drift": "first run missed (System::expand was not a unit); C18 now has the contract of System::expand",
    "waitany-count-mismatch": "first run missed (the WAITANY/TESTANY round trips were never listed: symex did not finish); C43 now has contracts on ActivityWaitanySimcall/ActivityTestanySimcall::serialize (records written == count packed)",
    "receiver-framed-with-sender-offset": "first run missed (smpi_comm_copy_buffer_callback was not a unit); C35 now has its byte-level contract",
    "racing-check-only-last-kept": "first run missed (needs 4 actors; the execution harnesses explore 3 events / 2 actors); C42 now checks get_racing_events_of against an arbitrary happens-before relation over 5 events / 4 actors",
    "topological-order-ignores-outside-causes": "first run missed (EventSet::get_topological_ordering was not a unit); C44 now has its contract over every acyclic cause relation on 3 (quick) / 4 events",
    "history-iterator-keeps-visited-maximal": "first run missed (History::Iterator was not a unit); C44 now has the inductive step of Iterator::increment and the full traversal",
}
SUPERSEDED = {
    "hindexed-serialize-skips-empty-block": ("hindexed-serialize-stops-at-empty-block",
        "written against the Type_Hindexed::serialize loop that commit e030d1a091 repaired: the patch no longer applies and its `continue` "
        "would be harmless in the repaired loop; on the tree it was written for (0fedb59f7c) the new serialize contract catches it "
        "(label hindexed_serialize_first_copy_takes_each_block_at_its_displacement, run by hand); re-based as the named change"),
}
for mj in glob.glob(os.path.join(ROOT, "seeded", "*", "*", "meta.json")):
    m = json.load(open(mj))
    n = m["name"]
    if n in NEEDS:
        m["needs"] = NEEDS[n]
    if n in STATION and (m.get("pinned_tests_with_patch") in ("skipped", None) or n in ("real-interpolation-rewritten",)):
        m["pinned_tests_with_patch"] = STATION[n]
    if n in SUPERSEDED:
        m["superseded_by"], m["superseded_note"] = SUPERSEDED[n]
    if n in STRENGTHENED:
        m["first_result"] = STRENGTHENED[n]
        if m.get("vf_check_exit") == 1:
            m["caught_after_strengthening"] = STRENGTHENED[n].split(";")[-1].strip()
    json.dump(m, open(mj, "w"), indent=1)
print("annotated")
