#!/usr/bin/env python3
"""Adds to seeded/<ID>/<name>/meta.json what cannot be measured by seed_verify.sh alone: what the change needs in order
to manifest (from the seeding agent's notes), how the pinned tests were run for it (alone or in a group of patches
touching disjoint files), and whether the check was strengthened after first missing it."""
import glob
import json
import os

ROOT = os.path.dirname(os.path.dirname(os.path.abspath(__file__)))
FLAKY = ("tesh-self-catch-all-bg-output / tesh-self-background / tesh-self-set-output-sort are timing-sensitive self-tests "
         "of the tesh script (no libsimgrid code); under the load of this session they fail also on the unpatched tree and "
         "pass when rerun alone")
NEEDS = {
    "unlock-depth-reversed": "recursive mutex handed over to a blocked locker who then re-locks it recursively",
    "trylock-depth-dropped": "recursive mutex whose outermost acquisition is a try_lock on a free mutex, then a re-acquisition",
    "int-rejection-off-by-one": "a raw generator output exactly equal to the rejection limit (probability 2^-32 per draw)",
    "real-interpolation-rewritten": "a degenerate or extremely narrow interval (min == max or a few ulps apart)",
    "both-create-folded": "two different actors both about to create a child (ACTOR_CREATE vs ACTOR_CREATE)",
    "sem-lock-capacity-threshold": "two actors locking the same semaphore while exactly one token is left",
    "prefix-scale-integer-wrap": "a value written with a zetta/yotta (Z, Y, Zi, Yi) prefix",
    "zero-skips-unit-validation": "a number that parses to zero followed by an invalid unit or trailing junk",
    "int-narrowed-before-range-check": "an int item set from a string outside int but inside long (e.g. 4294967297)",
    "callback-skipped-on-same-value": "an invalid value rejected by the callback, then the same value set again",
    "dict-remove-head-drops-chain": "two keys colliding in one bucket, removal of the first-inserted while the other remains",
    "dynar-sparse-set-stale-gap": "grow the dynar, shrink it, then a sparse set past the end",
    "destroy-skips-flush-same-date": "two containers destroyed at the same simulated date with an event in between",
    "insert-older-than-all-at-index-1": "an event strictly older than everything in a non-empty trace buffer",
    "recv-eager-threshold-inclusive": "non-zero eager threshold T, receive of exactly T bytes posted before the send",
    "size-adjust-before-sequence-check": "a refused out-of-order candidate smaller than the buffer, then a fitting message",
    "expand-wakes-only-one-constraint": "variable on two limited constraints gets staged by expand on the second one",
    "reused-element-counter-drift": "same variable expanded twice on one constraint with weights summing across 1 (0.5+0.5)",
    "move-onto-itself-loses-bytes": "File::move of a file onto its own name",
    "seek-past-end-skips-update": "one-argument seek strictly past the end of file followed by a read",
    "descending-range-drops-last": "descending rank range (stride < 0) whose walk lands exactly on `last`",
    "split-ties-by-actor-id": "communicator whose rank order differs from actor-id order, split with equal keys",
    "swap-pop-removal-breaks-fifo": "at least 3 operations of the same kind pending on one message queue",
    "remove-erases-tail": "withdrawal (actor exit / cancel) of a pending message that has later ones queued behind it",
    "empty-vector-contiguous-shortcut": "MPI_Type_vector with count 0 and stride != blocklength, nested in another type",
    "hindexed-serialize-skips-empty-block": "indexed type with a zero-length block followed by a non-empty one, on the send side",
    "irecv-skips-lookup-behind-filtered-recv": "a filtered receive waiting, a send it rejects queued behind it, then an unfiltered get",
    "queued-filter-skipped-without-match-data": "a filtered receive posted before a plain put (no match data)",
}
STATION = {  # name -> how the pinned tests were run with the change
    "unlock-depth-reversed": "pass (alone)", "trylock-depth-dropped": "pass (alone)", "int-rejection-off-by-one": "pass (alone)",
    "real-interpolation-rewritten": "pass (alone; 103/104, the 1 failure is load flakiness: " + FLAKY + ")",
}
G = {
    "G1": (["both-create-folded", "prefix-scale-integer-wrap", "int-narrowed-before-range-check",
            "dict-remove-head-drops-chain", "destroy-skips-flush-same-date", "recv-eager-threshold-inclusive",
            "expand-wakes-only-one-constraint"], "103/104; the 1 failure (tesh-self-catch-all-bg-output) is load flakiness: " + FLAKY),
    "G2": (["sem-lock-capacity-threshold", "zero-skips-unit-validation", "callback-skipped-on-same-value",
            "dynar-sparse-set-stale-gap", "insert-older-than-all-at-index-1", "size-adjust-before-sequence-check",
            "reused-element-counter-drift"], "104/104"),
    "G3": (["move-onto-itself-loses-bytes", "descending-range-drops-last", "swap-pop-removal-breaks-fifo",
            "empty-vector-contiguous-shortcut"], "104/104"),
    "G4": (["seek-past-end-skips-update", "split-ties-by-actor-id", "remove-erases-tail",
            "hindexed-serialize-skips-empty-block"], "102/104; the 2 failures (tesh-self-background, tesh-self-catch-all-bg-output) are load flakiness: " + FLAKY),
}
for g, (names, res) in G.items():
    for n in names:
        STATION[n] = "pass, tested together with the other patches of group %s (disjoint files): %s" % (g, res)
STRENGTHENED = {
    "real-interpolation-rewritten": "first run undecided (cvc5 timeout on the mutated formula); the uniform_real obligations now run as a SAT/cvc5 solver race and SAT refutes the mutant in 7 s",
    "prefix-scale-integer-wrap": "first run missed (the table generator is outside cxx2c's subset); C27 now enumerates the real tables natively (specs/C27/tables.cpp)",
    "sem-lock-capacity-threshold": "first run missed (only the mutex group had commutation lemmas); C39 now has semaphore LOCK/UNLOCK commutation harnesses on the real SemaphoreImpl code",
    "recv-eager-threshold-inclusive": "first run missed (Request::start was not a unit); C28 now has the mailbox-choice contract of Request::start",
    "destroy-skips-flush-same-date": "first run missed (Container::~Container was not a unit); C47 now has the destructor's flush-before-signal contract",
}
for mj in glob.glob(os.path.join(ROOT, "seeded", "*", "*", "meta.json")):
    m = json.load(open(mj))
    n = m["name"]
    if n in NEEDS:
        m["needs"] = NEEDS[n]
    if n in STATION and (m.get("pinned_tests_with_patch") in ("skipped", None) or n in ("real-interpolation-rewritten",)):
        m["pinned_tests_with_patch"] = STATION[n]
    if n in STRENGTHENED:
        m["first_result"] = STRENGTHENED[n]
        if m.get("vf_check_exit") == 1:
            m["caught_after_strengthening"] = STRENGTHENED[n].split(";")[-1].strip()
    json.dump(m, open(mj, "w"), indent=1)
print("annotated")
