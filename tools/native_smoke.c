/* Development aid (NOT a check, no verdict): run the extracted C of a property natively on random inputs, to debug a
 * harness or a model before paying for CBMC. The emitted gen.c / gen.h are plain C plus __CPROVER_* primitives, stubbed here:
 * a failed __CPROVER_assume abandons the run, a failed __CPROVER_assert is reported.
 *
 *   ./vf check C44 --only topo_order --keep            # leaves out/C44/quick/{gen.c,gen.h,spec.c}
 *   cd out/C44/quick && gcc -O1 -w -I. -DH_topo_order -DVF_CAP=8 -DNU=4 -DNC=3 -DVF_NONDET_MOD=3 \
 *        ../../../tools/native_smoke.c -o /tmp/smoke && /tmp/smoke 1000000
 *
 * VF_NONDET_MOD bounds nondet_uchar/unsigned/size (most harnesses assume small values; unbounded draws rarely survive).
 * "model cuts" counts assumptions that failed inside gen.h/gen.c (capacity assumptions of the container models): it must
 * stay 0, otherwise the model bound hides behaviour. Differences between this run and CBMC point at CBMC-specific
 * pitfalls (see docs/HOWTO.md, "2-D array rows").                                                                   */
#include <setjmp.h>
#include <stdio.h>
#include <stdlib.h>
#ifndef VF_NONDET_MOD
#define VF_NONDET_MOD 4
#endif
static jmp_buf vf_jb;
static long vf_failures, vf_model_cuts;
#define __CPROVER_assume(x)                                                                                            \
  do {                                                                                                                 \
    if (!(x)) {                                                                                                        \
      if (__FILE__[0] == 'g')                                                                                          \
        vf_model_cuts++;                                                                                               \
      longjmp(vf_jb, 1);                                                                                               \
    }                                                                                                                  \
  } while (0)
#define __CPROVER_assert(x, msg)                                                                                       \
  do {                                                                                                                 \
    if (!(x)) {                                                                                                        \
      if (vf_failures++ < 10)                                                                                          \
        printf("ASSERT FAILED %s:%d: %s\n", __FILE__, __LINE__, msg);                                                  \
      longjmp(vf_jb, 2);                                                                                               \
    }                                                                                                                  \
  } while (0)
#define __CPROVER_loop_invariant(x)
#define __CPROVER_assigns(...)
#define __CPROVER_decreases(x)
_Bool nondet_bool(void) { return rand() & 1; }
unsigned char nondet_uchar(void) { return (unsigned char)(rand() % VF_NONDET_MOD); }
unsigned nondet_unsigned(void) { return (unsigned)(rand() % VF_NONDET_MOD); }
int nondet_int(void) { return rand() % VF_NONDET_MOD; }
size_t nondet_size(void) { return (size_t)(rand() % VF_NONDET_MOD); }
#include "spec.c"
int main(int argc, char** argv)
{
  long n = argc > 1 ? atol(argv[1]) : 100000, done = 0;
  for (long r = 0; r < n; r++)
    if (setjmp(vf_jb) == 0) {
      harness();
      done++;
    }
  printf("runs %ld, completed %ld, assertion failures %ld, model cuts %ld\n", n, done, vf_failures, vf_model_cuts);
  return vf_failures != 0;
}
