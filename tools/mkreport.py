#!/usr/bin/env python3
"""Regenerates the generated tables of DESIGN.md section 10 (between the GENERATED markers) from
specs/*/check.json, evidence/*.json and seeded/*/*/meta.json."""
import glob
import json
import os
import re

ROOT = os.path.dirname(os.path.dirname(os.path.abspath(__file__)))


def short(s, n):
    s = " ".join(str(s).split())
    return s if len(s) <= n else s[:n - 1] + "…"


rows = ["| id | level | harnesses (quick) | functions under contract | obligations (last run) | bound / remark |",
        "|---|---|---|---|---|---|"]
for cj in sorted(glob.glob(os.path.join(ROOT, "specs", "*", "check.json"))):
    pid = os.path.basename(os.path.dirname(cj))
    c = json.load(open(cj))
    ev = {}
    ep = os.path.join(ROOT, "evidence", pid + ".json")
    if os.path.exists(ep):
        ev = json.load(open(ep))
    cov = ev.get("coverage", {})
    nq = len([h for h in c["harnesses"] if "quick" in h.get("tiers", ["quick", "thorough"])])
    fu = cov.get("functions_under_contract", [])
    rows.append("| %s | %s | %d | %d | %s/%s | %s |" % (
        pid, c.get("level", "proof"), nq, len(fu), cov.get("discharged", "?"), cov.get("obligations", "?"),
        short(c.get("bounded") or "—", 110)))
table1 = "\n".join(rows)

rows = ["| property | seeded change | needs | demo (pristine / patched) | pinned tests with the change | check | obligations that fail |",
        "|---|---|---|---|---|---|---|"]
for mj in sorted(glob.glob(os.path.join(ROOT, "seeded", "*", "*", "meta.json"))):
    m = json.load(open(mj))
    vio = [re.sub(r".*obligation (\S+) failed.*", r"\1", v) for v in m.get("violations", []) if v.startswith("obligation")]
    vio = sorted(set(v.split(":")[-1] for v in vio))[:3]
    verdict = {1: "**caught**", 0: "missed", 2: "undecided"}.get(m.get("vf_check_exit"), str(m.get("vf_check_exit")))
    if m.get("caught_after_strengthening"):
        verdict = "**caught** (after strengthening: %s)" % m["caught_after_strengthening"]
    rows.append("| %s | %s | %s | %s / %s | %s | %s | %s |" % (
        m["property"], m["name"], short(m.get("needs", ""), 90), m.get("demo_exit_pristine"), m.get("demo_exit_patched"),
        m.get("pinned_tests_with_patch"), verdict, ", ".join(vio) or "—"))
table2 = "\n".join(rows)

p = os.path.join(ROOT, "DESIGN.md")
s = open(p).read()
for name, tab in (("PROPERTIES", table1), ("SEEDS", table2)):
    b, e = "<!-- GENERATED:%s -->" % name, "<!-- /GENERATED:%s -->" % name
    if b in s:
        s = s[:s.index(b) + len(b)] + "\n" + tab + "\n" + s[s.index(e):]
open(p, "w").write(s)
print("tables regenerated")
