#!/usr/bin/env python3
"""Regenerates the generated tables of DESIGN.md section 10 (between the GENERATED markers) from
specs/*/check.json, evidence/*.json and seeded/*/*/meta.json."""
import glob
import json
import os
import re

ROOT = os.path.dirname(os.path.dirname(os.path.abspath(__file__)))


def short(s, n):
    s = " ".join(str(s).split())
    return s if len(s) <= n else s[:n - 1] + "…"


rows = ["| id | level | harnesses (quick) | functions under contract | obligations (last run) | bound / remark |",
        "|---|---|---|---|---|---|"]
for cj in sorted(glob.glob(os.path.join(ROOT, "specs", "*", "check.json"))):
    pid = os.path.basename(os.path.dirname(cj))
    c = json.load(open(cj))
    ev = {}
    ep = os.path.join(ROOT, "evidence", pid + ".json")
    if os.path.exists(ep):
        ev = json.load(open(ep))
    cov = ev.get("coverage", {})
    nq = len([h for h in c["harnesses"] if "quick" in h.get("tiers", ["quick", "thorough"])])
    fu = cov.get("functions_under_contract", [])
    rows.append("| %s | %s | %d | %d | %s/%s | %s |" % (
        pid, c.get("level", "proof"), nq, len(fu), cov.get("discharged", "?"), cov.get("obligations", "?"),
        short(c.get("bounded") or "—", 110)))
table1 = "\n".join(rows)

rows = ["| property | seeded change | needs | demo (pristine / patched) | pinned tests with the change | check | obligations that fail |",
        "|---|---|---|---|---|---|---|"]
for mj in sorted(glob.glob(os.path.join(ROOT, "seeded", "*", "*", "meta.json"))):
    m = json.load(open(mj))
    vio = [re.sub(r".*obligation (\S+) failed.*", r"\1", v) for v in m.get("violations", []) if v.startswith("obligation")]
    vio = sorted(set(v.split(":")[-1] for v in vio))[:3]
    verdict = {1: "**caught**", 0: "missed", 2: "undecided"}.get(m.get("vf_check_exit"), str(m.get("vf_check_exit")))
    if m.get("caught_after_strengthening"):
        verdict = "**caught** (after strengthening: %s)" % m["caught_after_strengthening"]
    if m.get("superseded_by"):
        verdict = "superseded by %s (%s)" % (m["superseded_by"], short(m.get("superseded_note", ""), 160))
    rows.append("| %s | %s | %s | %s / %s | %s | %s | %s |" % (
        m["property"], m["name"], short(m.get("needs", ""), 90), m.get("demo_exit_pristine"), m.get("demo_exit_patched"),
        m.get("pinned_tests_with_patch"), verdict, ", ".join(vio) or "—"))
ms = [json.load(open(mj)) for mj in sorted(glob.glob(os.path.join(ROOT, "seeded", "*", "*", "meta.json")))]
ms = [m for m in ms if not m.get("superseded_by")]
n1 = len([m for m in ms if m.get("vf_check_exit") == 1])
n1s = len([m for m in ms if m.get("vf_check_exit") == 1 and m.get("caught_after_strengthening")])
n2 = len([m for m in ms if m.get("vf_check_exit") == 2])
n0 = len([m for m in ms if m.get("vf_check_exit") == 0])
rows.append("")
rows.append("Summary: %d seeded changes over %d properties — %d caught (exit 1 with a named obligation; %d of them only after "
            "the check was strengthened), %d undecided (exit 2: the change alters a signature, a loop shape or a callee set "
            "that a contract names, so the proof no longer builds — the check fails loudly but does not call it a "
            "violation), %d missed (exit 0)." % (len(ms), len(set(m["property"] for m in ms)), n1, n1s, n2, n0))
table2 = "\n".join(rows)

m = json.load(open(os.path.join(ROOT, "MANIFEST.json")))
rows = ["| property | reason it is not claimed |", "|---|---|"]
for na in m.get("not_applicable", []):
    rows.append("| %s | %s |" % (na["property_id"], short(na["reason"], 400)))
table3 = "\n".join(rows)

p = os.path.join(ROOT, "DESIGN.md")
s = open(p).read()
for name, tab in (("PROPERTIES", table1), ("SEEDS", table2), ("NOTCLAIMED", table3)):
    b, e = "<!-- GENERATED:%s -->" % name, "<!-- /GENERATED:%s -->" % name
    if b in s:
        s = s[:s.index(b) + len(b)] + "\n" + tab + "\n" + s[s.index(e):]
open(p, "w").write(s)
print("tables regenerated")
