#!/usr/bin/env python3
"""Regenerates /verif/MANIFEST.json from specs/*/check.json and tools/not_applicable.json."""
import json, os
ROOT = os.path.dirname(os.path.dirname(os.path.abspath(__file__)))
props = [json.loads(l)["id"] for l in open(os.path.join(ROOT, "properties.jsonl"))]
na = json.load(open(os.path.join(ROOT, "tools", "not_applicable.json")))
import re
open_findings = set()
kf = os.path.join(ROOT, "known_findings.txt")
if os.path.exists(kf):
    for l in open(kf):
        m = re.match(r"finding:\s+property=(C\d+)", l)
        if m:
            open_findings.add(m.group(1))
checks = []
for pid in props:
    cj = os.path.join(ROOT, "specs", pid, "check.json")
    if not os.path.exists(cj):
        continue
    c = json.load(open(cj))
    if not c.get("claimed", True):
        continue
    checks.append({
        "property_id": pid,
        "quick_cmd": "./vf check %s --tier quick" % pid,
        "thorough_cmd": "./vf check %s --tier thorough" % pid,
        "evidence_file": "/verif/evidence/%s.json" % pid,
        "replay_cmd_template": "cat {path}",
        "engine": "vf",
        "level_claimed": {"category": ("other" if pid in open_findings else c.get("level", "proof")), "text": c["level_text"] + (" NOTE: open known finding(s) recorded for this property: the check is not a proof record while they stay open." if pid in open_findings else ""), "design_ref": c.get("design_ref", "DESIGN.md section 4")},
        "level_note": c["level_note"],
        "technique": c.get("technique", "CBMC code contracts (goto-instrument --dfcc) on C extracted from the real C++ by clang-AST translation"),
    })
claimed = {c["property_id"] for c in checks}
nal = []
for pid in props:
    if pid in claimed:
        continue
    nal.append({"property_id": pid, "reason": na.get(pid, "not implemented within the time available (design in DESIGN.md section 4)")})
m = {
    "version": 1,
    "setup_cmd": "./tools/setup.sh",
    "hooks": {"guard": "SIMGRID_VERIF", "enable": "not used: contracts live in /verif/specs, extraction reads the sources, replay drivers use internal headers",
              "baseline_off_cmd": "ctest --test-dir /repo/_build -j8 --timeout 900", "source_commits": [], "add_only": True},
    "engines": [{"name": "vf", "path": "/verif/vf", "serves_properties": sorted(claimed),
                 "kind_free_text": "cxx2c (clang JSON AST -> C) + goto-cc + goto-instrument --dfcc (function and loop contracts) + cbmc; native replay drivers against libsimgrid"}],
    "checks": checks,
    "notes": "exit 0 held / exit 1 VIOLATION / exit 2 undecided (extraction, timeout, tool failure). Known findings: /verif/known_findings.txt",
    "not_applicable": nal,
}
json.dump(m, open(os.path.join(ROOT, "MANIFEST.json"), "w"), indent=1)
print("claimed:", len(checks), "not applicable:", len(nal))
