#!/bin/bash
# Regression: runs the quick check of every listed (default: every claimed) property sequentially; prints one line each.
cd "$(dirname "$0")/.."
ids="$@"
[ -z "$ids" ] && ids=$(python3 -c "import json; print(' '.join(c['property_id'] for c in json.load(open('MANIFEST.json'))['checks']))")
for id in $ids; do
  t0=$(date +%s)
  out=$(VF_JOBS=${VF_JOBS:-8} ./vf check $id --tier ${TIER:-quick} 2>&1); rc=$?
  echo "$id rc=$rc $(( $(date +%s) - t0 ))s :: $(echo "$out" | tail -1)"
  [ $rc -ne 0 ] && echo "$out" | grep "VIOLATION\|UNDECIDED\|KNOWN" | cut -c1-220 | head -5
done
