#include <stddef.h>
#define CAP 4
#define VF_PT(lv) __CPROVER_object_upto(&(lv), sizeof(lv))
typedef int* elt;
int g_a, g_b;
struct seq { elt* d; size_t h, n, cap; };
struct R { struct seq ll; elt last; };
elt g_buf[CAP];
struct R g_r;
int g_x;
_Bool g_c;

void push(struct R* r, elt v)
__CPROVER_requires(r->ll.n < r->ll.cap && r->ll.cap <= CAP && r->ll.d == g_buf)
__CPROVER_assigns(VF_PT(r->ll.d[r->ll.n]), r->ll.n; g_c: VF_PT(r->last))
__CPROVER_ensures(r->ll.n == __CPROVER_old(r->ll.n) + 1)
__CPROVER_ensures(r->ll.d[__CPROVER_old(r->ll.n)] == v)
__CPROVER_ensures(!g_c || r->last == v)
;

void unit(struct R* r)
__CPROVER_requires(r == &g_r && r->ll.d == g_buf && r->ll.n == 0 && r->ll.cap == CAP)
__CPROVER_assigns(g_x, __CPROVER_object_whole(g_buf), r->ll.n, r->last)
__CPROVER_ensures(r->ll.n == 2 && g_buf[0] == &g_a && g_buf[1] == &g_b)
__CPROVER_ensures(g_buf[2] == __CPROVER_old(g_buf[2]))
__CPROVER_ensures(!g_c || r->last == &g_b)
__CPROVER_ensures(*g_buf[1] == g_b)
__CPROVER_ensures(g_x == 7)   /* FALSE: must fail */
{
  push(r, &g_a);
  push(r, &g_b);
  g_x = 5;
  __CPROVER_assert(0, "reach after second application");
}
void harness(void){ g_r.ll.d = g_buf; unit(&g_r); }
