#include <stddef.h>
#include <stdlib.h>
#define CAP 4
typedef int* elt;
int g_a, g_b;
elt g_buf[CAP];
elt g_one, g_two;
struct S { elt f; elt g; } g_s;
int g_x;

void push(elt* p, elt v)
__CPROVER_requires(p != NULL)
__CPROVER_assigns(*p)
__CPROVER_ensures(*p == v)
;

void unit(void)
__CPROVER_assigns(g_x, g_one, g_two, g_s, __CPROVER_object_whole(g_buf))
__CPROVER_ensures(g_x == 7)   /* FALSE: must fail */
{
  push(P0, &g_a);
  push(P1, &g_b);
  g_x = 5;
  __CPROVER_assert(0, "reach after second application");
}
void harness(void){ unit(); }
