#include <stddef.h>
typedef int* elt;
int g_a, g_b, g_arr[8];
elt g_p, g_q;
_Bool g_c;

elt get(void) __CPROVER_requires(1) __CPROVER_assigns() __CPROVER_ensures(1);
void hvc(elt* p) __CPROVER_requires(p != NULL) __CPROVER_assigns(g_c: *p);

void walk(elt* out, unsigned n)
{
  elt cur = &g_arr[0];
  for (unsigned i = 0; i < n; i++)
    __CPROVER_assigns(i, cur)
    __CPROVER_loop_invariant(i <= n)
    __CPROVER_decreases(n - i)
  {
    cur = &g_arr[i % 8];
  }
  *out = cur;
}

void harness(void) {
  elt r1 = get(), r2 = get();
  __CPROVER_assert(r1 == r2, "I pointer return value twice: same value");
  g_c = 1; hvc(&g_p); hvc(&g_q);
  __CPROVER_assert(g_p == g_q, "J conditional pointer target twice: same value");
  elt o1, o2; unsigned n1, n2;
  walk(&o1, n1); walk(&o2, n2);
  __CPROVER_assert(o1 == o2, "K pointer local in loop assigns, function called twice: same value");
}
