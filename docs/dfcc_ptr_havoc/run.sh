#!/bin/sh
# Reproducers of the CBMC 6.11 dfcc defect "pointer-typed lvalue assigns target of a replaced contract gets the same
# havoc value at every application" (docs/HOWTO.md, dfcc traps). Same pipeline and flags as ./vf.
# An assertion named "...: same value" that is reported SUCCESS is the unsoundness; "reach after second application"
# reported SUCCESS means the path died.
cd "$(dirname "$0")" || exit 2
T=$(mktemp -d)
CHK="--bounds-check --pointer-check --signed-overflow-check --unsigned-overflow-check --conversion-check --div-by-zero-check --pointer-overflow-check"
lemma() { # file, replaced contracts...
  f=$1; shift; r=""; for c in "$@"; do r="$r --replace-call-with-contract $c"; done
  echo "== $f"; goto-cc --function harness $f -o $T/a.gb && goto-instrument --dfcc harness $r --apply-loop-contracts $T/a.gb $T/b.gb >/dev/null 2>&1 &&
  cbmc $T/b.gb $CHK 2>&1 | grep -E "^\[harness.assertion|VERIFICATION"
}
unit() { # file, defines...
  f=$1; shift; echo "== $f $*"; goto-cc "$@" --function harness $f -o $T/a.gb &&
  goto-instrument --dfcc harness --enforce-contract unit --replace-call-with-contract push --apply-loop-contracts $T/a.gb $T/b.gb >/dev/null 2>&1 &&
  cbmc $T/b.gb $CHK 2>&1 | grep -E "^\[unit.*(postcondition|assertion)|VERIFICATION"
}
lemma shapes.c hv hv2 hvl hvs hvw other
lemma shapes2.c get hvc
lemma shapes3.c hva hvu hvf hvd
unit twice.c '-DP0=&g_one' '-DP1=&g_two'      # two different globals: path dead, false postcondition "proved"
unit twice.c '-DP0=&g_buf[0]' '-DP1=&g_buf[1]'
unit workaround.c                             # VF_PT(lv): path alive, false postcondition fails, frame stays exact
rm -rf $T
