#include <stddef.h>
typedef int* elt;
elt g_b1[4], g_b2[4];
struct W { elt d[2]; } g_w1, g_w2;
void hva(elt (*p)[4]) __CPROVER_requires(p != NULL) __CPROVER_assigns(*p);
void hvu(elt* p) __CPROVER_requires(p != NULL) __CPROVER_assigns(__CPROVER_object_upto(p, 2*sizeof(elt)));
void hvf(elt* p) __CPROVER_requires(p != NULL) __CPROVER_assigns(__CPROVER_object_from(p));
void hvd(struct W* w) __CPROVER_requires(w != NULL) __CPROVER_assigns(w->d);
void harness(void) {
  hva(&g_b1); hva(&g_b2);
  __CPROVER_assert(g_b1[1] == g_b2[1], "L array-of-pointers lvalue target twice: same value");
  elt a[4], b[4]; hvu(a); hvu(b);
  __CPROVER_assert(a[1] == b[1], "M object_upto twice: same value");
  elt c[4], d[4]; hvf(&c[1]); hvf(&d[1]);
  __CPROVER_assert(c[1] == d[1], "N object_from twice: same value");
  hvd(&g_w1); hvd(&g_w2);
  __CPROVER_assert(g_w1.d[1] == g_w2.d[1], "O array member lvalue twice: same value");
}
