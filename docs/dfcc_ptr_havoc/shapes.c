#include <stddef.h>
typedef int* elt;
int g_a, g_b;
elt g_one, g_two, g_three;
long g_l1, g_l2;
struct S { elt f; int k; } g_s1, g_s2;

/* no ensures at all: after the call *p must be an arbitrary pointer */
void hv(elt* p) __CPROVER_requires(p != NULL) __CPROVER_assigns(*p);
void hv2(elt* p, elt* q) __CPROVER_requires(p != NULL && q != NULL) __CPROVER_assigns(*p, *q);
void hvl(long* p) __CPROVER_requires(p != NULL) __CPROVER_assigns(*p);
void hvs(struct S* p) __CPROVER_requires(p != NULL) __CPROVER_assigns(*p);
void hvw(elt* p) __CPROVER_requires(p != NULL) __CPROVER_assigns(__CPROVER_object_whole(p));
void other(elt* p) __CPROVER_requires(p != NULL) __CPROVER_assigns(*p);

void harness(void) {
  hv(&g_one); hv(&g_two);
  __CPROVER_assert(g_one == g_two, "A pointer lvalue target, same contract twice: same value (UNSOUND if proved)");
  other(&g_three);
  __CPROVER_assert(g_one == g_three, "B pointer lvalue target, two different contracts: same value");
  elt x, y; hv2(&x, &y);
  __CPROVER_assert(x == y, "C two pointer targets of one contract, one application: same value");
  hvl(&g_l1); hvl(&g_l2);
  __CPROVER_assert(g_l1 == g_l2, "D integer lvalue target twice: same value");
  hvs(&g_s1); hvs(&g_s2);
  __CPROVER_assert(g_s1.f == g_s2.f, "E struct lvalue target with pointer field twice: same value");
  elt u, v; hvw(&u); hvw(&v);
  __CPROVER_assert(u == v, "F object_whole of a pointer object twice: same value");
  elt w = &g_a; hv(&w);
  __CPROVER_assert(w == &g_a, "G pointer target keeps its old value");
  __CPROVER_assert(w == g_one, "H third application equals first");
}
