"""Native replay helper: compile a driver that #includes the working tree's TU and links libsimgrid, run it."""
import os
import subprocess


def build_and_run(src, workdir, repo, args, timeout=600):
    os.makedirs(workdir, exist_ok=True)
    exe = os.path.join(workdir, os.path.basename(src).replace(".cpp", ""))
    inc = ["-I%s/_build/include" % repo, "-I%s/include" % repo, "-I%s/_build" % repo, "-I%s" % repo,
           "-I%s/src/smpi/include" % repo, "-I/usr/include/eigen3"]
    libdir = "%s/_build/lib" % (repo if os.path.isdir(os.path.join(repo, "_build", "lib")) else "/repo")
    if not os.path.isdir(os.path.join(repo, "_build")):
        inc += ["-I/repo/_build/include", "-I/repo/_build"]  # scratch worktree: generated headers of the main build
    cmd = ["g++", "-std=gnu++20", "-O0", "-g", "-w", "-fno-access-control", "-DNDEBUG"] + inc + [src, "-o", exe,
           "-L%s" % libdir, "-lsimgrid", "-Wl,-rpath,%s" % libdir]
    p = subprocess.run(cmd, capture_output=True, text=True, timeout=timeout)
    if p.returncode != 0:
        return {"reproduced": False, "error": "driver does not compile: " + p.stderr[-1500:], "cmd": " ".join(cmd)}
    q = subprocess.run([exe] + list(args), capture_output=True, text=True, timeout=timeout)
    return {"reproduced": q.returncode == 1, "exit": q.returncode, "output": (q.stdout + q.stderr)[-4000:],
            "driver": src, "cmd": " ".join(cmd)}
