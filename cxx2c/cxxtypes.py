"""Parse clang-printed C++ type strings and map them to C types (DESIGN.md section 3.2, "type map").

The map is the *stated abstraction* of the extraction:
  intrusive_ptr/unique_ptr/shared_ptr<T>      -> T*        (reference counts, destructors dropped)
  vector/deque/list/stack<T>                  -> struct vf_seq_<tag(T)>   (array + head + length + capacity)
  iterators of those                          -> T*
  std::pair<A,B>                              -> struct vf_pair_<A>_<B> {first, second}
  std::optional<T>                            -> struct vf_opt_<T> {has, value}
  std::string / string_view                   -> vf_str (opaque id, equality only)
  std::atomic<T>                              -> T
  std::function<...>                          -> struct vf_fn (function pointer + env)
  enums                                       -> int
  classes                                     -> struct <UnqualifiedName>
Anything else aborts the extraction (Unsupported).
"""
import re


class Unsupported(Exception):
    pass


class T:
    """kind: 'named' (name, args), 'ptr' (to), 'ref' (to), 'rref' (to), 'array' (to, n), 'func' (ret, params),
    'lit' (name)"""

    def __init__(self, kind, name=None, args=None, to=None, n=None, ret=None, params=None, const=False):
        self.kind, self.name, self.args, self.to, self.n, self.ret, self.params, self.const = \
            kind, name, args or [], to, n, ret, params or [], const

    def __repr__(self):
        if self.kind == "named":
            return ("const " if self.const else "") + self.name + ("<%s>" % ",".join(map(repr, self.args)) if self.args else "")
        if self.kind == "lit":
            return self.name
        if self.kind in ("ptr", "ref", "rref"):
            return repr(self.to) + {"ptr": "*", "ref": "&", "rref": "&&"}[self.kind] + (" const" if self.const else "")
        if self.kind == "array":
            return "%r[%s]" % (self.to, self.n)
        if self.kind == "func":
            return "%r(%s)" % (self.ret, ",".join(map(repr, self.params)))
        return "?"

    @property
    def last(self):
        return self.name.split("::")[-1] if self.name else None


_tok_re = re.compile(r"\s*(::|&&|[<>,*&()\[\]]|\.\.\.|[A-Za-z_~][A-Za-z_0-9]*|-?[0-9][0-9a-zA-Z.+-]*|'[^']*'|\"[^\"]*\")")

BUILTIN_WORDS = {"unsigned", "signed", "long", "int", "short", "char", "double", "float", "bool", "void", "_Bool",
                 "__int128", "wchar_t", "char8_t", "char16_t", "char32_t", "_Complex", "auto"}
QUALS = {"const", "volatile", "struct", "class", "enum", "typename", "restrict", "__restrict", "noexcept", "constexpr",
         "union"}


def tokenize(s):
    s = s.replace("(anonymous namespace)::", "")
    s = re.sub(r"\(lambda at [^()]*\)", "vf_lambda", s)  # closure types: modelled like std::function (struct vf_fn)
    pos, out = 0, []
    while pos < len(s):
        m = _tok_re.match(s, pos)
        if not m:
            if s[pos:].strip() == "":
                break
            raise Unsupported("type tokenizer: %r at %d" % (s, pos))
        out.append(m.group(1))
        pos = m.end()
    return out


class _P:
    def __init__(self, toks, src):
        self.t, self.i, self.src = toks, 0, src

    def peek(self):
        return self.t[self.i] if self.i < len(self.t) else None

    def next(self):
        x = self.peek()
        self.i += 1
        return x

    def parse_type(self):
        const = False
        while self.peek() in QUALS:
            if self.next() == "const":
                const = True
        # base
        words = []
        while self.peek() in BUILTIN_WORDS:
            words.append(self.next())
            while self.peek() in QUALS:
                if self.next() == "const":
                    const = True
        if words:
            base = T("named", name=" ".join(words))
        else:
            base = self.parse_name()
        base.const = const
        return self.parse_suffix(base)

    def parse_name(self):
        parts = []
        args = []
        if self.peek() == "::":
            self.next()
        while True:
            tok = self.next()
            if tok is None or not re.match(r"[A-Za-z_~]", tok):
                raise Unsupported("type parser: unexpected %r in %r" % (tok, self.src))
            if tok == "operator":
                # operator names inside types: give up
                raise Unsupported("operator in type name " + self.src)
            parts.append(tok)
            args = []
            if self.peek() == "<":
                self.next()
                args = self.parse_targs()
            if self.peek() == "::":
                self.next()
                if args:
                    parts[-1] = parts[-1] + "<" + ",".join(repr(a) for a in args) + ">"
                    args = []
                while self.peek() in QUALS:  # "typename"/"template"
                    self.next()
                continue
            break
        return T("named", name="::".join(parts), args=args)

    def parse_targs(self):
        args = []
        if self.peek() == ">":
            self.next()
            return args
        while True:
            tok = self.peek()
            if tok is not None and re.match(r"-?[0-9]|'|\"", tok):
                args.append(T("lit", name=self.next()))
            elif tok in ("true", "false"):
                args.append(T("lit", name=self.next()))
            elif tok == "&":
                # pointer-to-member / address constant as template argument: &Class::member
                self.next()
                args.append(T("lit", name="&" + self.parse_name().name))
            else:
                args.append(self.parse_type())
            tok = self.next()
            if tok == ",":
                continue
            if tok == ">":
                return args
            raise Unsupported("type parser: bad template args in %r" % self.src)

    def parse_suffix(self, base):
        while True:
            tok = self.peek()
            if tok == "*":
                self.next()
                base = T("ptr", to=base)
            elif tok == "&":
                self.next()
                base = T("ref", to=base)
            elif tok == "&&":
                self.next()
                base = T("rref", to=base)
            elif tok == "const":
                self.next()
                base.const = True
            elif tok in ("volatile", "restrict", "__restrict"):
                self.next()
            elif tok == "[":
                self.next()
                n = None
                if self.peek() != "]":
                    n = self.next()
                if self.next() != "]":
                    raise Unsupported("array type " + self.src)
                base = T("array", to=base, n=n)
            elif tok == "(":
                # function type "ret (params) quals" or pointer-to-function "ret (*)(params)"
                self.next()
                if self.peek() in ("*", "&"):
                    # (*)(params) or (Class::*)(params)
                    depth = 1
                    inner = []
                    while depth:
                        x = self.next()
                        if x == "(":
                            depth += 1
                        elif x == ")":
                            depth -= 1
                        if depth:
                            inner.append(x)
                    if self.peek() == "(":
                        self.next()
                        params = self.parse_params()
                        f = T("func", ret=base, params=params)
                        self.skip_fn_quals()
                        base = f
                        for x in inner:
                            if x == "*":
                                base = T("ptr", to=base)
                            elif x == "&":
                                base = T("ref", to=base)
                    else:
                        # pointer/reference to array: "int (&)[3]"
                        if self.peek() == "[":
                            base = self.parse_suffix(base)
                        for x in inner:
                            if x == "*":
                                base = T("ptr", to=base)
                            elif x == "&":
                                base = T("ref", to=base)
                else:
                    params = self.parse_params()
                    base = T("func", ret=base, params=params)
                    self.skip_fn_quals()
            else:
                return base

    def skip_fn_quals(self):
        while self.peek() in ("const", "noexcept", "volatile", "&", "&&", "override", "final"):
            self.next()
        if self.peek() == "(":  # noexcept(expr)
            depth = 0
            while True:
                x = self.next()
                if x == "(":
                    depth += 1
                elif x == ")":
                    depth -= 1
                    if depth == 0:
                        break
        if self.peek() == "->":
            raise Unsupported("trailing return type " + self.src)

    def parse_params(self):
        params = []
        if self.peek() == ")":
            self.next()
            return params
        while True:
            if self.peek() == "...":
                self.next()
                params.append(T("named", name="..."))
            else:
                params.append(self.parse_type())
            tok = self.next()
            if tok == ",":
                continue
            if tok == ")":
                return params
            raise Unsupported("type parser: bad params in %r (tok %r)" % (self.src, tok))


_parse_cache = {}


def parse(s):
    if s in _parse_cache:
        return _parse_cache[s]
    m = re.fullmatch(r"auto (\(.*\)(?: const)?(?: noexcept)?) -> (.+)", s)
    if m:
        # trailing return type, as clang prints the operator() of a lambda written without a parameter list
        t = parse("%s %s" % (m.group(2), m.group(1)))
        _parse_cache[s] = t
        return t
    p = _P(tokenize(s), s)
    t = p.parse_type()
    if p.peek() is not None:
        raise Unsupported("type parser: trailing %r in %r" % (p.peek(), s))
    _parse_cache[s] = t
    return t


SMART_PTRS = {"intrusive_ptr", "unique_ptr", "shared_ptr", "weak_ptr",
              "__shared_ptr", "__shared_ptr_access"}  # the last two: libstdc++ bases of shared_ptr (operator->, reset, bool)
SEQS = {"vector", "deque", "list", "stack"}
# container adaptors over a sequence: the adaptor IS its underlying sequence, member functions renamed (libmap.member_call)
SEQ_ADAPTORS = {"stack": {"push": "push_back", "emplace": "emplace_back", "pop": "pop_back", "top": "back"}}
SEQ_ITERS = {"__normal_iterator", "_Deque_iterator", "_List_iterator", "_List_const_iterator"}
# iterators of the map/set models: pointer to the entry (pair) / key
ASSOC_ITERS = {"_Rb_tree_iterator", "_Rb_tree_const_iterator", "_Node_iterator", "_Node_const_iterator",
               "_Node_iterator_base"}
INT_TYPEDEFS = {
    "size_t": "size_t", "std::size_t": "size_t", "ssize_t": "long", "ptrdiff_t": "long", "std::ptrdiff_t": "long",
    "aid_t": "long", "sg_size_t": "unsigned long long", "sg_offset_t": "long long",
    "uint8_t": "unsigned char", "int8_t": "signed char", "uint16_t": "unsigned short", "int16_t": "short",
    "uint32_t": "unsigned int", "int32_t": "int", "uint64_t": "unsigned long", "int64_t": "long",
    "uintptr_t": "unsigned long", "intptr_t": "long", "std::uint32_t": "unsigned int", "std::uint64_t": "unsigned long",
    "std::int64_t": "long", "std::int32_t": "int", "std::uint8_t": "unsigned char",
    "uint_fast32_t": "unsigned long", "int_fast32_t": "long", "uint_fast64_t": "unsigned long",
    "std::atomic_int_fast32_t": "long", "atomic_int_fast32_t": "long", "std::atomic_bool": "_Bool",
    "MPI_Aint": "long", "MPI_Offset": "long long", "MPI_Count": "long long",
    "difference_type": "long", "size_type": "size_t", "std::nullptr_t": "void*", "nullptr_t": "void*",
    "boost::detail::sp_nullptr_t": "void*", "sp_nullptr_t": "void*", "uintmax_t": "unsigned long", "intmax_t": "long",
    "result_type": "unsigned long", "std::mt19937::result_type": "unsigned long",
}
STRINGS = {"std::string", "string", "std::basic_string", "basic_string", "std::string_view", "string_view",
           "std::basic_string_view", "basic_string_view", "xbt::string", "simgrid::xbt::string",
           "std::__cxx11::basic_string", "std::__cxx11::string"}


def ident(s):
    return re.sub(r"[^A-Za-z0-9_]", "_", s)


class TypeMap:
    """Maps parsed C++ types to C type strings; records the container/pair/optional instantiations it needs."""

    def __init__(self, typedefs=None, class_alias=None, enums=None):
        self.typedefs = dict(typedefs or {})  # name -> type string (learned from AST sugar + config)
        self.class_alias = dict(class_alias or {})  # qualified or last name -> C struct tag
        self.enums = set(enums or [])
        self.arr_insts = {}  # tag -> (elem ctype, N)   std::array<T,N> -> struct vf_arr_<tag> { T a[N]; }
        self.scalar_classes = {}  # class name -> {"ctype":..., "ops":[...]}: wrapper classes mapped to a scalar
        self.seq_insts = {}  # tag -> elem ctype
        self.pair_insts = {}  # tag -> (a,b)
        self.opt_insts = {}  # tag -> ctype
        self.map_insts = {}  # tag -> (k,v)
        self.set_insts = {}  # tag -> k
        self.ilist_insts = {}  # tag -> (elem ctype, hook member name)   boost::intrusive::list
        self.used_structs = []  # ordered list of struct tags referenced
        self.carr_insts = {}  # typedef name -> (elem ctype, N) for pointer-to-array types

    def learn(self, sugar, desugared):
        if not sugar or not desugared or sugar == desugared:
            return
        if re.fullmatch(r"[A-Za-z_][A-Za-z_0-9:]*", sugar) and sugar not in self.typedefs:
            self.typedefs[sugar] = desugared
            last = sugar.split("::")[-1]
            self.typedefs.setdefault(last, desugared)

    def resolve(self, t):
        """Expand learned typedef names at the top of t (not builtin-like)."""
        seen = 0
        if t.kind == "named" and not t.args and t.name.endswith(">::element_type"):
            # member typedef of a smart pointer (shared_ptr<T>::element_type as clang prints operator->): T
            try:
                owner = parse(t.name[:-len("::element_type")])
            except Unsupported:
                owner = None
            if owner is not None and owner.kind == "named" and owner.last in SMART_PTRS and owner.args:
                e = owner.args[0]
                return T(e.kind, name=e.name, args=e.args, to=e.to, n=e.n, ret=e.ret, params=e.params,
                         const=e.const or t.const)
        while t.kind == "named" and not t.args and t.name in self.typedefs and seen < 10:
            const = t.const
            t = parse(self.typedefs[t.name])
            if const:
                t = T(t.kind, name=t.name, args=t.args, to=t.to, n=t.n, ret=t.ret, params=t.params, const=True)
            seen += 1
        return t

    def tag(self, ctype):
        # LP64: size_t and unsigned long are one type; one tag, so that pair<size_t,..> and pair<unsigned long,..> coincide
        ctype = re.sub(r"\bsize_t\b", "unsigned long", ctype)
        return ident(ctype.replace("struct ", "").replace("*", "P").replace(" ", "_"))

    def struct_tag(self, name):
        if name in self.class_alias:
            return self.class_alias[name]
        last = name.split("::")[-1]
        if last in self.class_alias:
            return self.class_alias[last]
        return ident(last)

    def is_seq(self, t):
        t = self.resolve(strip_ref(t))
        return t.kind == "named" and t.last in SEQS and bool(t.args) and not is_intrusive(t)

    def ilist_parts(self, t):
        """(element type T, hook member name) of boost::intrusive::list<T, member_hook<T, H, &T::m>>,
        list_impl<mhtraits<T, H, &T::m>, ...> or list_iterator<mhtraits<T, H, &T::m>, const?>; None otherwise"""
        if t.kind != "named" or not is_intrusive(t) or not t.args:
            return None
        tr = None
        if t.last == "list" and len(t.args) >= 2:
            tr = t.args[1]
        elif t.last in ("list_impl", "list_iterator"):
            tr = t.args[0]
        if tr is None or tr.kind != "named" or tr.last not in ("member_hook", "mhtraits") or len(tr.args) != 3 or \
                tr.args[2].kind != "lit" or not tr.args[2].name.startswith("&"):
            raise Unsupported("boost::intrusive list without a member_hook option: %r" % t)
        return tr.args[0], tr.args[2].name.split("::")[-1]

    def ilist_ctype(self, t):
        elem, hook = self.ilist_parts(t)
        e = self.c(elem)
        if not e.startswith("struct "):
            raise Unsupported("intrusive list of non-class %s" % e)
        tg = self.tag(e) + "__" + hook
        self.ilist_insts.setdefault(tg, (e, hook))
        return "struct vf_ilist_" + tg, e

    def is_smart_ptr(self, t):
        t = self.resolve(strip_ref(t))
        return t.kind == "named" and t.last in SMART_PTRS and bool(t.args)

    def c(self, t):
        """C type string for parsed type t (references become pointers)."""
        if isinstance(t, str):
            t = parse(t)
        k = t.kind
        if k in ("ref", "rref"):
            return self.c(t.to) + "*"
        if k == "ptr":
            if t.to.kind == "func":
                return "vf_fnptr"
            if t.to.kind == "array" and t.to.n is not None and str(t.to.n).isdigit():
                # pointer to array of N T (parameter `T a[][N]`): typedef T vf_carr_T_N[N]; the pointee decays as in C++
                e = self.c(t.to.to)
                name = "vf_carr_%s_%s" % (self.tag(e), t.to.n)
                self.carr_insts[name] = (e, str(t.to.n))
                return name + "*"
            return self.c(t.to) + "*"
        if k == "array":
            raise Unsupported("array type in this position: %r" % t)
        if k == "func":
            return "vf_fnptr"
        if k == "lit":
            raise Unsupported("literal as type")
        if not t.args and t.name and t.name.endswith(">::element_type"):
            r = self.resolve(t)  # smart_ptr<T>::element_type -> T
            if r is not t:
                return self.c(r)
        name = t.name
        if name in ("bool", "_Bool"):
            return "_Bool"
        if name in ("std::strong_ordering", "strong_ordering") and not t.args:
            return "int"  # -1 less, 0 equal/equivalent, 1 greater
        if name in ("std::_Bit_reference", "_Bit_reference", "std::vector<bool>::reference"):
            return "_Bool"  # proxy reference to an element of vector<bool>: the element lvalue of the seq model
        words = name.split(" ")
        if all(w in BUILTIN_WORDS for w in words):
            if name == "auto":
                raise Unsupported("undeduced auto")
            return name
        if name in INT_TYPEDEFS and not t.args:
            return INT_TYPEDEFS[name]
        last = t.last
        if last in INT_TYPEDEFS and not t.args and name.startswith("std::"):
            return INT_TYPEDEFS[last]
        if name in STRINGS or (last in ("basic_string", "basic_string_view", "string", "string_view") and True):
            return "vf_str"
        if last in SMART_PTRS and t.args:
            return self.c(t.args[0]) + "*"
        if is_intrusive(t):
            # boost::intrusive::list (member hooks): ordered array of element pointers + "linked" flag in the hook
            if last in ("list", "list_impl") and t.args:
                return self.ilist_ctype(t)[0]
            if last == "list_iterator" and t.args:
                return self.ilist_ctype(t)[1] + "**"
            if last in ("list_member_hook", "generic_hook"):
                self.need_ihook = True
                return "struct vf_ihook"
            raise Unsupported("boost::intrusive entity %s" % name)
        if last in SEQS and t.args:
            e = self.c(t.args[0])
            tg = self.tag(e)
            self.seq_insts.setdefault(tg, e)
            return "struct vf_seq_" + tg
        if last == "reverse_iterator" and t.args and "::" not in name.replace("std::", "", 1):
            # std::reverse_iterator<It>: the value of its base() iterator; *r is *(base-1), ++r is --base (libmap)
            return self.c(t.args[0])
        if last in SEQ_ITERS and t.args:
            a0 = t.args[0]
            if last == "__normal_iterator":
                return self.c(a0)  # already T*
            return self.c(a0) + "*"
        if last in ASSOC_ITERS and t.args:
            return self.c(t.args[0]) + "*"
        if last in ("iterator", "const_iterator", "reverse_iterator", "const_reverse_iterator") and "::" in name \
                and not t.args:
            # std::vector<T>::iterator printed unsugared
            m = re.match(r"(.*)<(.*)>::(const_)?(reverse_)?iterator$", name)
            if m and m.group(1).split("::")[-1] in SEQS:
                return self.c(parse(first_targ(m.group(2)))) + "*"
            if m and m.group(1).split("::")[-1] in ("set", "unordered_set") and not m.group(4):
                # std::unordered_set<K>::const_iterator printed unsugared: pointer to the key slot of the set model
                return self.c(parse(first_targ(m.group(2)))) + "*"
            raise Unsupported("iterator type %s" % name)
        if last == "pair" and len(t.args) == 2:
            a, b = self.c(t.args[0]), self.c(t.args[1])
            tg = self.tag(a) + "__" + self.tag(b)
            self.pair_insts.setdefault(tg, (a, b))
            return "struct vf_pair_" + tg
        if last == "optional" and t.args:
            e = self.c(t.args[0])
            tg = self.tag(e)
            self.opt_insts.setdefault(tg, e)
            return "struct vf_opt_" + tg
        if last in ("atomic", "__atomic_base") and t.args:
            return self.c(t.args[0])
        if (last == "function" and t.args) or name == "vf_lambda":
            return "struct vf_fn"
        if last in ("unique_lock", "lock_guard", "scoped_lock"):
            return "struct vf_lock"  # lock ownership token: mutual exclusion itself is not modelled (sequential units)
        if last == "array" and len(t.args) == 2 and t.args[1].kind == "lit":
            e = self.c(t.args[0])
            n = re.sub(r"[uUlL]+$", "", t.args[1].name)
            tg = self.tag(e) + "_" + n
            self.arr_insts.setdefault(tg, (e, n))
            return "struct vf_arr_" + tg
        if not t.args and last in self.scalar_classes:
            return self.scalar_classes[last]["ctype"]
        if last in ("mersenne_twister_engine", "mt19937"):
            return "struct vf_mt19937"
        if name in ("std::mutex", "std::recursive_mutex"):
            return "struct vf_std_mutex"  # stateless in the sequential model: lock/unlock are dropped (libmap)
        if last == "exception_ptr" and not t.args and name.startswith("std::"):
            return "vf_excptr"  # std::exception_ptr: the KIND of the stored exception (0 = null, VF_EXC_<Type>)
        if last == "result_type" and "mersenne_twister_engine" in name:
            return "unsigned long"
        if last in ("map", "unordered_map") and len(t.args) >= 2:
            a, b = self.c(t.args[0]), self.c(t.args[1])
            tg = self.tag(a) + "__" + self.tag(b)
            self.map_insts.setdefault(tg, (a, b))
            self.pair_insts.setdefault(tg, (a, b))  # the map model stores entries of this pair type
            return "struct vf_map_" + tg
        if last in ("set", "unordered_set", "flat_set") and t.args:
            a = self.c(t.args[0])
            tg = self.tag(a)
            self.set_insts.setdefault(tg, a)
            return "struct vf_set_" + tg
        if last == "initializer_list" and t.args:
            e = self.c(t.args[0])
            tg = self.tag(e)
            self.seq_insts.setdefault(tg, e)
            return "struct vf_seq_" + tg
        if last == "reference_wrapper" and t.args:
            return self.c(t.args[0]) + "*"
        if not t.args and name in self.typedefs:
            r = self.resolve(t)
            if r is not t and not (r.kind == "named" and r.name == name):
                return self.c(r)
        if not t.args and last in self.typedefs and "::" in name:
            r = parse(self.typedefs[last])
            if not (r.kind == "named" and r.last == last):
                return self.c(r)
        if name in self.enums or last in self.enums:
            return "int"
        if not t.args and re.fullmatch(r"[A-Z]\w*Ptr", last) and last not in self.class_alias:
            # SimGrid convention: XxxPtr = boost::intrusive_ptr<Xxx>
            return self.c(T("named", name=name[:-3])) + "*"
        if last in ("value_type", "reference", "pointer") and "<" in name:
            # member types of the map/set iterators: the entry type (first template argument) / pointer to it
            m = re.match(r"(?:.*?::)?([A-Za-z_]\w*)<(.*)>::(value_type|reference|pointer)$", name)
            if m and m.group(1) in ASSOC_ITERS:
                inner = self.c(parse(first_targ(m.group(2))))
                return inner + ("*" if m.group(3) != "value_type" else "")
        if last in ("value_type", "mapped_type", "key_type") and "<" in name:
            # member types of standard containers / allocator traits printed without a desugared form:
            # __alloc_traits<allocator<T>, T>::value_type = T; (unordered_)map<K, V>::key_type = K, ::mapped_type = V
            m = re.match(r"(?:.*?::)?([A-Za-z_]\w*)<(.*)>::(value_type|mapped_type|key_type)$", name)
            if m:
                a0 = first_targ(m.group(2))
                rest = m.group(2)[len(a0) + 1:].strip()
                if m.group(1) == "__alloc_traits" and m.group(3) == "value_type" and rest:
                    return self.c(parse(first_targ(rest)))
                if m.group(1) in ("map", "unordered_map", "multimap") and m.group(3) == "key_type":
                    return self.c(parse(a0))
                if m.group(1) in ("map", "unordered_map", "multimap") and m.group(3) == "mapped_type" and rest:
                    return self.c(parse(first_targ(rest)))
        if last in ("value_type", "pointer", "const_pointer") and "<" in name:
            # member types of std::array / the sequence containers: the element type (first template argument) / pointer to it
            m = re.match(r"(?:.*?::)?([A-Za-z_]\w*)<(.*)>::(value_type|pointer|const_pointer)$", name)
            if m and (m.group(1) == "array" or m.group(1) in SEQS):
                inner = self.c(parse(first_targ(m.group(2))))
                return inner + ("*" if m.group(3) != "value_type" else "")
        if last in ("reference", "const_reference", "value_type", "_Self", "pointer", "mapped_type", "key_type"):
            raise Unsupported("dependent member type %s (no desugared form)" % name)
        # class type
        tagname = self.struct_tag(name if not t.args else name + "_" + "_".join(ident(repr(a)) for a in t.args))
        if t.args:
            tagname = ident(last + "_" + "_".join(ident(repr(a).split("::")[-1]) for a in t.args))
            tagname = self.class_alias.get(tagname, tagname)
        if tagname not in self.used_structs:
            self.used_structs.append(tagname)
        return "struct " + tagname

    def class_tag_of(self, t):
        """struct tag for the class designated by t (through pointers/refs/smart pointers)."""
        c = self.c(peel(self, t))
        if not c.startswith("struct "):
            raise Unsupported("not a class type: %r -> %s" % (t, c))
        return c[len("struct "):]


def is_intrusive(t):
    return t.kind == "named" and bool(t.name) and t.name.startswith("boost::intrusive::")


def first_targ(s):
    depth = 0
    for i, ch in enumerate(s):
        if ch == "<":
            depth += 1
        elif ch == ">":
            depth -= 1
        elif ch == "," and depth == 0:
            return s[:i]
    return s


def strip_ref(t):
    while t.kind in ("ref", "rref"):
        t = t.to
    return t


def peel(tm, t):
    """Strip refs, pointers, smart pointers down to the pointee class type."""
    while True:
        t = tm.resolve(t)
        if t.kind in ("ref", "rref", "ptr"):
            t = t.to
        elif t.kind == "named" and t.last in SMART_PTRS and t.args:
            t = t.args[0]
        else:
            return t
