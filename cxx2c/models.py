"""Generates the C models (assumed, trusted) for the std/boost types of the type map. All are plain C with
loop contracts where they loop; capacity bounds are assumptions reported in the evidence ("bounded by model capacity")."""

COMMON = r'''
/* ---- /verif models: common ---- */
#include <stddef.h>
#include <stdlib.h>
#include <string.h>
#include <stdbool.h>
#include <math.h>
#include <limits.h>
#include <float.h>
#include <errno.h>
#ifndef VF_CAP
#define VF_CAP 8          /* capacity of locally created containers (model bound) */
#endif
typedef void (*vf_fnptr)(void);
typedef long vf_str;        /* opaque string id: equality only */
#define VF_STR_EMPTY ((vf_str)0)
struct vf_fn { vf_fnptr fn; void* env; };
struct vf_mt19937 { unsigned long opaque_state; }; /* std::mt19937: only its operator() (assumed callee) is used */
extern int vf_exc;          /* 0 = no exception in flight; VF_EXC_* otherwise (exception model) */
#define VF_EXC_ABORT 1
#define VF_ABORT() (vf_exc = VF_EXC_ABORT)
#ifdef VF_CANARY
#define VF_CANARY_POINT __CPROVER_assert(0, "vf canary: must fail (the call returns under its precondition)")
#else
#define VF_CANARY_POINT ((void)0)
#endif
'''

SEQ = r'''
/* ---- model of std::vector/deque/list<%(T)s> : elements d[h .. h+n), capacity cap ---- */
struct vf_seq_%(G)s { %(T)s* d; size_t h; size_t n; size_t cap; };
/*FUNCS*/
static inline size_t vf_seq_%(G)s_size(const struct vf_seq_%(G)s* s) { return s->n; }
static inline %(T)s* vf_seq_%(G)s_at(struct vf_seq_%(G)s* s, size_t i) { __CPROVER_assert(i < s->n, "vf_seq index in range"); return &s->d[s->h + i]; }
static inline %(T)s* vf_seq_%(G)s_back(struct vf_seq_%(G)s* s) { __CPROVER_assert(s->n > 0, "vf_seq back on non-empty"); return &s->d[s->h + s->n - 1]; }
static inline %(T)s* vf_seq_%(G)s_begin(struct vf_seq_%(G)s* s) { return s->d + s->h; }
static inline %(T)s* vf_seq_%(G)s_end(struct vf_seq_%(G)s* s) { return s->d + s->h + s->n; }
static inline void vf_seq_%(G)s_push_back(struct vf_seq_%(G)s* s, %(T)s v) { __CPROVER_assume(s->h + s->n < s->cap); s->d[s->h + s->n] = v; s->n++; }
static inline void vf_seq_%(G)s_pop_front(struct vf_seq_%(G)s* s) { __CPROVER_assert(s->n > 0, "vf_seq pop_front on non-empty"); s->h++; s->n--; }
static inline void vf_seq_%(G)s_pop_back(struct vf_seq_%(G)s* s) { __CPROVER_assert(s->n > 0, "vf_seq pop_back on non-empty"); s->n--; }
static inline void vf_seq_%(G)s_clear(struct vf_seq_%(G)s* s) { s->n = 0; }
static inline struct vf_seq_%(G)s vf_seq_%(G)s_make(void) { struct vf_seq_%(G)s s; s.d = (%(T)s*)malloc(sizeof(%(T)s) * VF_CAP); __CPROVER_assume(s.d != 0); s.h = 0; s.n = 0; s.cap = VF_CAP; return s; }
static inline void vf_seq_%(G)s_push_front(struct vf_seq_%(G)s* s, %(T)s v) { __CPROVER_assume(s->h > 0); s->h--; s->d[s->h] = v; s->n++; }
static inline %(T)s* vf_seq_%(G)s_find_in(%(T)s* b, %(T)s* e, %(T)s v)
{
  size_t cnt = (size_t)(e - b);
  size_t i = 0;
  while (i < cnt && !(%(EQ)s))
    __CPROVER_assigns(i)
    __CPROVER_loop_invariant(i <= cnt)
    __CPROVER_decreases(cnt - i)
  { i++; }
  return b + i;
}
static inline %(T)s* vf_seq_%(G)s_erase(struct vf_seq_%(G)s* s, %(T)s* it)
{
  size_t i = (size_t)(it - (s->d + s->h));
  __CPROVER_assert(i < s->n, "vf_seq erase in range");
  for (size_t j = i; j + 1 < s->n; j++)
    __CPROVER_assigns(j, __CPROVER_object_whole(s->d))
    __CPROVER_loop_invariant(i <= j && j < s->n)
    __CPROVER_decreases(s->n - j)
  { s->d[s->h + j] = s->d[s->h + j + 1]; }
  s->n--;
  return it;
}
'''

SEQ_EXTRA = r'''
static inline struct vf_seq_%(G)s vf_seq_%(G)s_make_n(size_t n) { struct vf_seq_%(G)s s; __CPROVER_assume(n <= VF_CAP); s.d = (%(T)s*)calloc(VF_CAP, sizeof(%(T)s)); __CPROVER_assume(s.d != 0); s.h = 0; s.n = n; s.cap = VF_CAP; return s; }
static inline struct vf_seq_%(G)s vf_seq_%(G)s_make_fill(size_t n, %(T)s v) { struct vf_seq_%(G)s s = vf_seq_%(G)s_make(); __CPROVER_assume(n <= VF_CAP); for (size_t i = 0; i < VF_CAP; i++) { if (i < n) s.d[i] = v; } s.n = n; return s; }
static inline void vf_seq_%(G)s_resize(struct vf_seq_%(G)s* s, size_t n) { __CPROVER_assume(s->h + n <= s->cap); for (size_t i = 0; i < VF_CAP; i++) { if (s->n + i < n) memset(&s->d[s->h + s->n + i], 0, sizeof(%(T)s)); } s->n = n; }
static inline struct vf_seq_%(G)s vf_seq_%(G)s_copy(const struct vf_seq_%(G)s* o) { struct vf_seq_%(G)s s = vf_seq_%(G)s_make(); __CPROVER_assume(o->n <= VF_CAP); for (size_t i = 0; i < VF_CAP; i++) { if (i < o->n) s.d[i] = o->d[o->h + i]; } s.n = o->n; return s; }
'''

MINMAX = {
    "min": "static inline %(T)s vf_min_%(G)s(%(T)s a, %(T)s b) { return (b < a) ? b : a; }\n",
    "max": "static inline %(T)s vf_max_%(G)s(%(T)s a, %(T)s b) { return (a < b) ? b : a; }\n",
    "clamp": "static inline %(T)s vf_clamp_%(G)s(%(T)s v, %(T)s lo, %(T)s hi) { return (v < lo) ? lo : ((hi < v) ? hi : v); }\n",
    "swap": "static inline void vf_swap_%(G)s(%(T)s* a, %(T)s* b) { %(T)s t = *a; *a = *b; *b = t; }\n",
}

PAIR = "struct vf_pair_%(G)s { %(A)s first; %(B)s second; };\n"
OPT = "struct vf_opt_%(G)s { _Bool has; %(T)s value; };\n"

SET = r'''
/* ---- model of std::set/unordered_set<%(T)s>: distinct keys k[0..n), iteration in insertion order (assumption) ---- */
struct vf_set_%(G)s { %(T)s* k; size_t n; size_t cap; };
/*FUNCS*/
static inline size_t vf_set_%(G)s_size(const struct vf_set_%(G)s* s) { return s->n; }
static inline _Bool vf_set_%(G)s_empty(const struct vf_set_%(G)s* s) { return s->n == 0; }
static inline void vf_set_%(G)s_clear(struct vf_set_%(G)s* s) { s->n = 0; }
static inline %(T)s* vf_set_%(G)s_begin(struct vf_set_%(G)s* s) { return s->k; }
static inline %(T)s* vf_set_%(G)s_end(struct vf_set_%(G)s* s) { return s->k + s->n; }
static inline struct vf_set_%(G)s vf_set_%(G)s_make(void) { struct vf_set_%(G)s s; s.k = (%(T)s*)malloc(sizeof(%(T)s) * VF_CAP); __CPROVER_assume(s.k != 0); s.n = 0; s.cap = VF_CAP; return s; }
static inline %(T)s* vf_set_%(G)s_find(struct vf_set_%(G)s* s, %(T)s v)
{
  size_t i = 0;
  while (i < s->n && !(s->k[i] == v))
    __CPROVER_assigns(i)
    __CPROVER_loop_invariant(i <= s->n)
    __CPROVER_decreases(s->n - i)
  { i++; }
  return s->k + i;
}
static inline size_t vf_set_%(G)s_count(struct vf_set_%(G)s* s, %(T)s v) { return vf_set_%(G)s_find(s, v) != s->k + s->n; }
static inline _Bool vf_set_%(G)s_contains(struct vf_set_%(G)s* s, %(T)s v) { return vf_set_%(G)s_find(s, v) != s->k + s->n; }
static inline void vf_set_%(G)s_insert(struct vf_set_%(G)s* s, %(T)s v) { if (vf_set_%(G)s_find(s, v) == s->k + s->n) { __CPROVER_assume(s->n < s->cap); s->k[s->n] = v; s->n++; } }
static inline size_t vf_set_%(G)s_erase(struct vf_set_%(G)s* s, %(T)s v)
{
  %(T)s* p = vf_set_%(G)s_find(s, v);
  if (p == s->k + s->n) return 0;
  size_t i = (size_t)(p - s->k);
  for (size_t j = i; j + 1 < s->n; j++)
    __CPROVER_assigns(j, __CPROVER_object_whole(s->k))
    __CPROVER_loop_invariant(i <= j && j < s->n)
    __CPROVER_decreases(s->n - j)
  { s->k[j] = s->k[j + 1]; }
  s->n--;
  return 1;
}
'''

MAP = r'''
/* ---- model of std::map/unordered_map<%(A)s,%(B)s>: distinct keys, entries e[0..n) ---- */
struct vf_map_%(G)s { struct vf_pair_%(G)s* e; size_t n; size_t cap; };
/*FUNCS*/
static inline size_t vf_map_%(G)s_size(const struct vf_map_%(G)s* s) { return s->n; }
static inline _Bool vf_map_%(G)s_empty(const struct vf_map_%(G)s* s) { return s->n == 0; }
static inline void vf_map_%(G)s_clear(struct vf_map_%(G)s* s) { s->n = 0; }
static inline struct vf_pair_%(G)s* vf_map_%(G)s_begin(struct vf_map_%(G)s* s) { return s->e; }
static inline struct vf_pair_%(G)s* vf_map_%(G)s_end(struct vf_map_%(G)s* s) { return s->e + s->n; }
static inline struct vf_pair_%(G)s* vf_map_%(G)s_find(struct vf_map_%(G)s* s, %(A)s k)
{
  size_t i = 0;
  while (i < s->n && !(s->e[i].first == k))
    __CPROVER_assigns(i)
    __CPROVER_loop_invariant(i <= s->n)
    __CPROVER_decreases(s->n - i)
  { i++; }
  return s->e + i;
}
static inline size_t vf_map_%(G)s_count(struct vf_map_%(G)s* s, %(A)s k) { return vf_map_%(G)s_find(s, k) != s->e + s->n; }
static inline _Bool vf_map_%(G)s_contains(struct vf_map_%(G)s* s, %(A)s k) { return vf_map_%(G)s_find(s, k) != s->e + s->n; }
static inline %(B)s* vf_map_%(G)s_index(struct vf_map_%(G)s* s, %(A)s k)
{
  struct vf_pair_%(G)s* p = vf_map_%(G)s_find(s, k);
  if (p == s->e + s->n) { __CPROVER_assume(s->n < s->cap); p->first = k; memset(&p->second, 0, sizeof(%(B)s)); s->n++; }
  return &p->second;
}
static inline %(B)s* vf_map_%(G)s_at(struct vf_map_%(G)s* s, %(A)s k)
{
  struct vf_pair_%(G)s* p = vf_map_%(G)s_find(s, k);
  __CPROVER_assert(p != s->e + s->n, "vf_map at: key present");
  return &p->second;
}
static inline void vf_map_%(G)s_insert(struct vf_map_%(G)s* s, %(A)s k, %(B)s v)
{
  struct vf_pair_%(G)s* p = vf_map_%(G)s_find(s, k);
  if (p == s->e + s->n) { __CPROVER_assume(s->n < s->cap); p->first = k; p->second = v; s->n++; }
}
static inline void vf_map_%(G)s_set(struct vf_map_%(G)s* s, %(A)s k, %(B)s v) { *vf_map_%(G)s_index(s, k) = v; }
static inline size_t vf_map_%(G)s_erase(struct vf_map_%(G)s* s, %(A)s k)
{
  struct vf_pair_%(G)s* p = vf_map_%(G)s_find(s, k);
  if (p == s->e + s->n) return 0;
  size_t i = (size_t)(p - s->e);
  for (size_t j = i; j + 1 < s->n; j++)
    __CPROVER_assigns(j, __CPROVER_object_whole(s->e))
    __CPROVER_loop_invariant(i <= j && j < s->n)
    __CPROVER_decreases(s->n - j)
  { s->e[j] = s->e[j + 1]; }
  s->n--;
  return 1;
}
'''


def is_structy(ct):
    return ct.startswith("struct ") and not ct.endswith("*")


def struct_defs(tm):
    """[(tag, text, by-value deps)] for every model struct"""
    out = []
    for tag, (a, b) in tm.pair_insts.items():
        deps = [x[7:] for x in (a, b) if is_structy(x)]
        out.append(("vf_pair_" + tag, PAIR % {"G": tag, "A": a, "B": b}, deps))
    for tag, t in tm.opt_insts.items():
        out.append(("vf_opt_" + tag, OPT % {"G": tag, "T": t}, [t[7:]] if is_structy(t) else []))
    for tag, (t, n) in tm.arr_insts.items():
        out.append(("vf_arr_" + tag, "struct vf_arr_%s { %s a[%s]; }; /* std::array */\n" % (tag, t, n),
                    [t[7:]] if is_structy(t) else []))
    for tag, t in tm.seq_insts.items():
        out.append(("vf_seq_" + tag, (SEQ % {"G": tag, "T": t, "EQ": ""}).split("/*FUNCS*/")[0], []))
    for tag, t in tm.set_insts.items():
        out.append(("vf_set_" + tag, (SET % {"G": tag, "T": t}).split("/*FUNCS*/")[0], []))
    for tag, (a, b) in tm.map_insts.items():
        out.append(("vf_map_" + tag, (MAP % {"G": tag, "A": a, "B": b}).split("/*FUNCS*/")[0], []))
    return out


def gen_funcs(tm, lib):
    from cxxtypes import ident
    out = []
    for tag, t in tm.seq_insts.items():
        eq = ("memcmp(&b[i], &v, sizeof(%s)) == 0" % t) if is_structy(t) else "b[i] == v"
        out.append((SEQ % {"G": tag, "T": t, "EQ": eq}).split("/*FUNCS*/")[1])
        out.append(SEQ_EXTRA % {"G": tag, "T": t})
    for tag, t in tm.set_insts.items():
        out.append((SET % {"G": tag, "T": t}).split("/*FUNCS*/")[1])
    for tag, (a, b) in tm.map_insts.items():
        out.append((MAP % {"G": tag, "A": a, "B": b}).split("/*FUNCS*/")[1])
    for kind, ct in sorted(lib.minmax):
        out.append(MINMAX[kind] % {"T": ct, "G": ident(ct)})
    return "".join(out)
