"""Generates the C models (assumed, trusted) for the std/boost types of the type map. All are plain C with
loop contracts where they loop; capacity bounds are assumptions reported in the evidence ("bounded by model capacity")."""

COMMON = r'''
/* ---- /verif models: common ---- */
#include <stddef.h>
#include <stdlib.h>
#include <string.h>
#include <stdbool.h>
#include <math.h>
#include <limits.h>
#include <float.h>
#include <errno.h>
#ifndef VF_CAP
#define VF_CAP 8          /* capacity of locally created containers (model bound) */
#endif
/* A spec may `#define VF_SEQ_EXACT <N>` before including gen.h: vf_seq find/erase then are exact (their loops have a
   constant trip count N and no loop contract; an assertion checks that lengths stay <= N). Default: loop contracts
   that only keep indices in range (element values after erase, first-occurrence of find are then unknown).
   `#define VF_SET_EXACT <N>` does the same for vf_set find/erase (and hence insert/count/contains). */
#ifndef VF_ICAP
#define VF_ICAP 4         /* capacity of every boost::intrusive::list model (model bound) */
#endif
typedef void (*vf_fnptr)(void);
typedef long vf_str;        /* opaque string id: equality only */
struct vf_std_mutex { char opaque; }; /* std::mutex: stateless here (no real threads in the model) */
typedef int vf_excptr;      /* std::exception_ptr: kind of the stored exception (0 = null, else a VF_EXC_* constant) */
#define VF_STR_EMPTY ((vf_str)0)
struct vf_fn { vf_fnptr fn; void* env; };
struct vf_lock { _Bool owns; }; /* std::unique_lock / lock_guard: ownership flag only, locking is not modelled */
struct vf_mt19937 { unsigned long opaque_state; }; /* std::mt19937: only its operator() (assumed callee) is used */
extern int vf_exc;          /* 0 = no exception in flight; VF_EXC_* otherwise (exception model) */
#define VF_EXC_ABORT 1
#define VF_ABORT() (vf_exc = VF_EXC_ABORT)
#define VF_CMP3(a, b) ((a) < (b) ? -1 : ((a) > (b) ? 1 : 0)) /* builtin operator<=> ; std::strong_ordering -> int */
/* assigns target for an lvalue of POINTER type in a contract that may be REPLACED: CBMC 6.11 dfcc havocs a plain pointer
   lvalue target with the same value at every application of the contract (docs/HOWTO.md, dfcc traps); the byte-level
   form below is havocked afresh each time and has the same frame */
#define VF_PT(lv) __CPROVER_object_upto(&(lv), sizeof(lv))
#ifdef VF_CANARY
#define VF_CANARY_POINT __CPROVER_assert(0, "vf canary: must fail (the call returns under its precondition)")
#else
#define VF_CANARY_POINT ((void)0)
#endif
vf_str nondet_vf_str(void);
#ifndef VF_STRLIT
#define VF_STRLIT(s) nondet_vf_str() /* string literal: an arbitrary id (string contents are outside the subset) */
#endif
/* constant-trip loops of the models, unrolled by the preprocessor (goto-instrument --dfcc --apply-loop-contracts rejects
   writes to the counter of a loop that has no loop contract): VF_FOR_CAP(stmt using i) runs stmt for i = 0 .. VF_CAP-1 */
#if VF_CAP > 32
#error "VF_CAP > 32: extend VF_FOR_CAP in cxx2c/models.py"
#endif
#if VF_CAP > 0
#define VF_U0(...) { const size_t i = 0; __VA_ARGS__; }
#else
#define VF_U0(...)
#endif
#if VF_CAP > 1
#define VF_U1(...) { const size_t i = 1; __VA_ARGS__; }
#else
#define VF_U1(...)
#endif
#if VF_CAP > 2
#define VF_U2(...) { const size_t i = 2; __VA_ARGS__; }
#else
#define VF_U2(...)
#endif
#if VF_CAP > 3
#define VF_U3(...) { const size_t i = 3; __VA_ARGS__; }
#else
#define VF_U3(...)
#endif
#if VF_CAP > 4
#define VF_U4(...) { const size_t i = 4; __VA_ARGS__; }
#else
#define VF_U4(...)
#endif
#if VF_CAP > 5
#define VF_U5(...) { const size_t i = 5; __VA_ARGS__; }
#else
#define VF_U5(...)
#endif
#if VF_CAP > 6
#define VF_U6(...) { const size_t i = 6; __VA_ARGS__; }
#else
#define VF_U6(...)
#endif
#if VF_CAP > 7
#define VF_U7(...) { const size_t i = 7; __VA_ARGS__; }
#else
#define VF_U7(...)
#endif
#if VF_CAP > 8
#define VF_U8(...) { const size_t i = 8; __VA_ARGS__; }
#else
#define VF_U8(...)
#endif
#if VF_CAP > 9
#define VF_U9(...) { const size_t i = 9; __VA_ARGS__; }
#else
#define VF_U9(...)
#endif
#if VF_CAP > 10
#define VF_U10(...) { const size_t i = 10; __VA_ARGS__; }
#else
#define VF_U10(...)
#endif
#if VF_CAP > 11
#define VF_U11(...) { const size_t i = 11; __VA_ARGS__; }
#else
#define VF_U11(...)
#endif
#if VF_CAP > 12
#define VF_U12(...) { const size_t i = 12; __VA_ARGS__; }
#else
#define VF_U12(...)
#endif
#if VF_CAP > 13
#define VF_U13(...) { const size_t i = 13; __VA_ARGS__; }
#else
#define VF_U13(...)
#endif
#if VF_CAP > 14
#define VF_U14(...) { const size_t i = 14; __VA_ARGS__; }
#else
#define VF_U14(...)
#endif
#if VF_CAP > 15
#define VF_U15(...) { const size_t i = 15; __VA_ARGS__; }
#else
#define VF_U15(...)
#endif
#if VF_CAP > 16
#define VF_U16(...) { const size_t i = 16; __VA_ARGS__; }
#else
#define VF_U16(...)
#endif
#if VF_CAP > 17
#define VF_U17(...) { const size_t i = 17; __VA_ARGS__; }
#else
#define VF_U17(...)
#endif
#if VF_CAP > 18
#define VF_U18(...) { const size_t i = 18; __VA_ARGS__; }
#else
#define VF_U18(...)
#endif
#if VF_CAP > 19
#define VF_U19(...) { const size_t i = 19; __VA_ARGS__; }
#else
#define VF_U19(...)
#endif
#if VF_CAP > 20
#define VF_U20(...) { const size_t i = 20; __VA_ARGS__; }
#else
#define VF_U20(...)
#endif
#if VF_CAP > 21
#define VF_U21(...) { const size_t i = 21; __VA_ARGS__; }
#else
#define VF_U21(...)
#endif
#if VF_CAP > 22
#define VF_U22(...) { const size_t i = 22; __VA_ARGS__; }
#else
#define VF_U22(...)
#endif
#if VF_CAP > 23
#define VF_U23(...) { const size_t i = 23; __VA_ARGS__; }
#else
#define VF_U23(...)
#endif
#if VF_CAP > 24
#define VF_U24(...) { const size_t i = 24; __VA_ARGS__; }
#else
#define VF_U24(...)
#endif
#if VF_CAP > 25
#define VF_U25(...) { const size_t i = 25; __VA_ARGS__; }
#else
#define VF_U25(...)
#endif
#if VF_CAP > 26
#define VF_U26(...) { const size_t i = 26; __VA_ARGS__; }
#else
#define VF_U26(...)
#endif
#if VF_CAP > 27
#define VF_U27(...) { const size_t i = 27; __VA_ARGS__; }
#else
#define VF_U27(...)
#endif
#if VF_CAP > 28
#define VF_U28(...) { const size_t i = 28; __VA_ARGS__; }
#else
#define VF_U28(...)
#endif
#if VF_CAP > 29
#define VF_U29(...) { const size_t i = 29; __VA_ARGS__; }
#else
#define VF_U29(...)
#endif
#if VF_CAP > 30
#define VF_U30(...) { const size_t i = 30; __VA_ARGS__; }
#else
#define VF_U30(...)
#endif
#if VF_CAP > 31
#define VF_U31(...) { const size_t i = 31; __VA_ARGS__; }
#else
#define VF_U31(...)
#endif
#define VF_FOR_CAP(...) { VF_U0(__VA_ARGS__) VF_U1(__VA_ARGS__) VF_U2(__VA_ARGS__) VF_U3(__VA_ARGS__) VF_U4(__VA_ARGS__) VF_U5(__VA_ARGS__) VF_U6(__VA_ARGS__) VF_U7(__VA_ARGS__) VF_U8(__VA_ARGS__) VF_U9(__VA_ARGS__) VF_U10(__VA_ARGS__) VF_U11(__VA_ARGS__) VF_U12(__VA_ARGS__) VF_U13(__VA_ARGS__) VF_U14(__VA_ARGS__) VF_U15(__VA_ARGS__) VF_U16(__VA_ARGS__) VF_U17(__VA_ARGS__) VF_U18(__VA_ARGS__) VF_U19(__VA_ARGS__) VF_U20(__VA_ARGS__) VF_U21(__VA_ARGS__) VF_U22(__VA_ARGS__) VF_U23(__VA_ARGS__) VF_U24(__VA_ARGS__) VF_U25(__VA_ARGS__) VF_U26(__VA_ARGS__) VF_U27(__VA_ARGS__) VF_U28(__VA_ARGS__) VF_U29(__VA_ARGS__) VF_U30(__VA_ARGS__) VF_U31(__VA_ARGS__) }
'''

SEQ = r'''
/* ---- model of std::vector/deque/list<%(T)s> : elements d[h .. h+n), capacity cap ---- */
struct vf_seq_%(G)s { %(T)s* d; size_t h; size_t n; size_t cap; };
/*FUNCS*/
static inline size_t vf_seq_%(G)s_size(const struct vf_seq_%(G)s* s) { return s->n; }
static inline %(T)s* vf_seq_%(G)s_at(struct vf_seq_%(G)s* s, size_t i) { __CPROVER_assert(i < s->n, "vf_seq index in range"); return &s->d[s->h + i]; }
static inline %(T)s* vf_seq_%(G)s_back(struct vf_seq_%(G)s* s) { __CPROVER_assert(s->n > 0, "vf_seq back on non-empty"); return &s->d[s->h + s->n - 1]; }
static inline %(T)s* vf_seq_%(G)s_begin(struct vf_seq_%(G)s* s) { return s->d + s->h; }
static inline %(T)s* vf_seq_%(G)s_end(struct vf_seq_%(G)s* s) { return s->d + s->h + s->n; }
static inline void vf_seq_%(G)s_push_back(struct vf_seq_%(G)s* s, %(T)s v) { __CPROVER_assume(s->h + s->n < s->cap); s->d[s->h + s->n] = v; s->n++; }
/* emplace_back(args..) of a class element: the new last slot, constructed in place by the caller (T__ctor(slot, args..)) */
static inline %(T)s* vf_seq_%(G)s_emplace_slot(struct vf_seq_%(G)s* s) { __CPROVER_assume(s->h + s->n < s->cap); s->n++; return &s->d[s->h + s->n - 1]; }
static inline void vf_seq_%(G)s_pop_front(struct vf_seq_%(G)s* s) { __CPROVER_assert(s->n > 0, "vf_seq pop_front on non-empty"); s->h++; s->n--; }
static inline void vf_seq_%(G)s_pop_back(struct vf_seq_%(G)s* s) { __CPROVER_assert(s->n > 0, "vf_seq pop_back on non-empty"); s->n--; }
static inline void vf_seq_%(G)s_clear(struct vf_seq_%(G)s* s) { s->n = 0; }
static inline struct vf_seq_%(G)s vf_seq_%(G)s_make(void) { struct vf_seq_%(G)s s; s.d = (%(T)s*)malloc(sizeof(%(T)s) * VF_CAP); __CPROVER_assume(s.d != 0); s.h = 0; s.n = 0; s.cap = VF_CAP; return s; }
static inline void vf_seq_%(G)s_push_front(struct vf_seq_%(G)s* s, %(T)s v) { __CPROVER_assume(s->h > 0); s->h--; s->d[s->h] = v; s->n++; }
/* find / erase: unrolled over the model capacity (precise: first occurrence; order-preserving shift) */
static inline %(T)s* vf_seq_%(G)s_find_in(%(T)s* b, %(T)s* e, %(T)s v)
{
  size_t cnt = (size_t)(e - b);
#ifdef VF_SEQ_EXACT /* exact variant with a CHECKED bound (first occurrence is found): unrolled, no loop contract */
  size_t i = 0;
  __CPROVER_assert(cnt <= VF_SEQ_EXACT, "vf_seq find: range within VF_SEQ_EXACT");
/*EXACT_FIND*/
  return b + i;
#else
  __CPROVER_assume(cnt <= VF_CAP);
  size_t r = cnt;
  VF_FOR_CAP(if (i < cnt && r == cnt && (%(EQ)s)) r = i;)
  return b + r;
#endif
}
static inline %(T)s* vf_seq_%(G)s_erase(struct vf_seq_%(G)s* s, %(T)s* it)
{
  size_t idx = (size_t)(it - (s->d + s->h));
  __CPROVER_assert(idx < s->n, "vf_seq erase in range");
#ifdef VF_SEQ_EXACT /* exact variant with a CHECKED bound (the tail is shifted element by element) */
  __CPROVER_assert(s->n <= VF_SEQ_EXACT, "vf_seq erase: length within VF_SEQ_EXACT");
/*EXACT_ERASE*/
#else
  __CPROVER_assume(s->n <= VF_CAP);
  VF_FOR_CAP(if (idx <= i && i + 1 < s->n) s->d[s->h + i] = s->d[s->h + i + 1];)
#endif
  s->n--;
  return it;
}
/* insert / erase(first,last): exact for sequences of at most VF_CAP elements (constant-bound loops: the driver unwinds
   them completely, see check.json "unwindset" when loop contracts are applied to the units) */
static inline %(T)s* vf_seq_%(G)s_insert(struct vf_seq_%(G)s* s, %(T)s* it, %(T)s v)
{
  size_t i = (size_t)(it - (s->d + s->h));
  __CPROVER_assert(i <= s->n, "vf_seq insert position in range");
  __CPROVER_assert(s->n <= VF_CAP, "vf_seq within model capacity");
  __CPROVER_assume(s->h + s->n < s->cap);
  for (size_t j = VF_CAP; j > 0; j--) { if (j <= s->n && j > i) s->d[s->h + j] = s->d[s->h + j - 1]; }
  s->d[s->h + i] = v;
  s->n++;
  return s->d + s->h + i;
}
static inline %(T)s* vf_seq_%(G)s_erase_range(struct vf_seq_%(G)s* s, %(T)s* first, %(T)s* last)
{
  size_t ia = (size_t)(first - (s->d + s->h));
  size_t ib = (size_t)(last - (s->d + s->h));
  __CPROVER_assert(ia <= ib && ib <= s->n, "vf_seq erase range in range");
  __CPROVER_assert(s->n <= VF_CAP, "vf_seq within model capacity");
  size_t k = ib - ia;
  for (size_t j = 0; j < VF_CAP; j++) { if (j >= ia && j + k < s->n) s->d[s->h + j] = s->d[s->h + j + k]; }
  s->n -= k;
  return first;
}
/* insert(pos, first, last): exact for at most VF_CAP present and at most VF_CAP inserted elements (unrolled, no loop).
   The _rev variant takes the base() pointers of a reverse-iterator range [rbegin, rend): elements rb[-1], rb[-2], ... */
static inline %(T)s* vf_seq_%(G)s_insert_range(struct vf_seq_%(G)s* s, %(T)s* it, %(T)s* first, %(T)s* last)
{
  size_t idx = (size_t)(it - (s->d + s->h));
  size_t k = (size_t)(last - first);
  %(T)s tmp[VF_CAP];
  __CPROVER_assert(idx <= s->n, "vf_seq insert position in range");
  __CPROVER_assert(s->n <= VF_CAP, "vf_seq within model capacity");
  __CPROVER_assume(k <= VF_CAP && s->h + s->n + k <= s->cap);
  VF_FOR_CAP(if (i < s->n) tmp[i] = s->d[s->h + i];)
  VF_FOR_CAP(if (idx <= i && i < s->n) s->d[s->h + i + k] = tmp[i];)
  VF_FOR_CAP(if (i < k) s->d[s->h + idx + i] = first[i];)
  s->n += k;
  return s->d + s->h + idx;
}
static inline %(T)s* vf_seq_%(G)s_insert_range_rev(struct vf_seq_%(G)s* s, %(T)s* it, %(T)s* rb, %(T)s* re)
{
  size_t idx = (size_t)(it - (s->d + s->h));
  size_t k = (size_t)(rb - re);
  %(T)s tmp[VF_CAP];
  __CPROVER_assert(idx <= s->n, "vf_seq insert position in range");
  __CPROVER_assert(s->n <= VF_CAP, "vf_seq within model capacity");
  __CPROVER_assume(k <= VF_CAP && s->h + s->n + k <= s->cap);
  VF_FOR_CAP(if (i < s->n) tmp[i] = s->d[s->h + i];)
  VF_FOR_CAP(if (idx <= i && i < s->n) s->d[s->h + i + k] = tmp[i];)
  VF_FOR_CAP(if (i < k) s->d[s->h + idx + i] = re[k - 1 - i];)
  s->n += k;
  return s->d + s->h + idx;
}
'''

EXACT_MAX = 16
_find = "".join("#if VF_SEQ_EXACT > %d\n  if (i == %d && i < cnt && !(%%(EQ)s)) i = %d;\n#endif\n" % (j, j, j + 1) for j in range(EXACT_MAX))
_erase = "".join("#if VF_SEQ_EXACT > %d\n  if (idx <= %d && %d < s->n) s->d[s->h + %d] = s->d[s->h + %d];\n#endif\n" % (j + 1, j, j + 1, j, j + 1) for j in range(EXACT_MAX))
_guard = "#if VF_SEQ_EXACT > %d\n#error \"VF_SEQ_EXACT too large for the unrolled models\"\n#endif\n" % EXACT_MAX
SEQ = SEQ.replace("/*EXACT_FIND*/\n", _guard + _find).replace("/*EXACT_ERASE*/\n", _erase)

SEQ_EXTRA = r'''
static inline struct vf_seq_%(G)s vf_seq_%(G)s_make_n(size_t n) { struct vf_seq_%(G)s s; __CPROVER_assume(n <= VF_CAP); s.d = (%(T)s*)calloc(VF_CAP, sizeof(%(T)s)); __CPROVER_assume(s.d != 0); s.h = 0; s.n = n; s.cap = VF_CAP; return s; }
static inline struct vf_seq_%(G)s vf_seq_%(G)s_make_fill(size_t n, %(T)s v) { struct vf_seq_%(G)s s = vf_seq_%(G)s_make(); __CPROVER_assume(n <= VF_CAP); VF_FOR_CAP(if (i < n) s.d[i] = v;) s.n = n; return s; }
static inline void vf_seq_%(G)s_resize(struct vf_seq_%(G)s* s, size_t n) { __CPROVER_assume(s->h + n <= s->cap); VF_FOR_CAP(if (s->n + i < n) memset(&s->d[s->h + s->n + i], 0, sizeof(%(T)s));) s->n = n; }
static inline void vf_seq_%(G)s_resize_fill(struct vf_seq_%(G)s* s, size_t n, %(T)s v) { __CPROVER_assume(n <= VF_CAP && s->h + n <= s->cap); VF_FOR_CAP(if (s->n <= i && i < n) s->d[s->h + i] = v;) s->n = n; }
static inline void vf_seq_%(G)s_assign_fill(struct vf_seq_%(G)s* s, size_t n, %(T)s v) { __CPROVER_assume(n <= s->cap && n <= VF_CAP); s->h = 0; VF_FOR_CAP(if (i < n) s->d[i] = v;) s->n = n; }
static inline struct vf_seq_%(G)s vf_seq_%(G)s_copy(const struct vf_seq_%(G)s* o) { struct vf_seq_%(G)s s = vf_seq_%(G)s_make(); __CPROVER_assume(o->n <= VF_CAP); VF_FOR_CAP(if (i < o->n) s.d[i] = o->d[o->h + i];) s.n = o->n; return s; }
'''

SEQ_FILL = r'''
static inline void vf_seq_%(G)s_resize_fill_deep(struct vf_seq_%(G)s* s, size_t n, %(T)s v) { __CPROVER_assume(s->h + n <= s->cap); for (size_t i = s->n; i < n; i++) { s->d[s->h + i] = %(COPYV)s; } s->n = n; }
'''

# std::list::sort / unique on scalar elements (emitted only for the instances that use them). Insertion sort (stable, as
# list::sort). The loops run over the LENGTH of the list (no loop contracts: they are unwound by the harness, with
# unwinding assertions, to a bound the harness chooses).
SEQ_SORT = r'''
static inline void vf_seq_%(G)s_sort_asc(struct vf_seq_%(G)s* s)
{
  for (size_t i = 1; i < s->n; i++) { %(T)s v = s->d[s->h + i]; size_t j = i; while (j > 0 && v < s->d[s->h + j - 1]) { s->d[s->h + j] = s->d[s->h + j - 1]; j--; } s->d[s->h + j] = v; }
}
static inline void vf_seq_%(G)s_sort_desc(struct vf_seq_%(G)s* s)
{
  for (size_t i = 1; i < s->n; i++) { %(T)s v = s->d[s->h + i]; size_t j = i; while (j > 0 && v > s->d[s->h + j - 1]) { s->d[s->h + j] = s->d[s->h + j - 1]; j--; } s->d[s->h + j] = v; }
}
static inline void vf_seq_%(G)s_unique(struct vf_seq_%(G)s* s)
{
  size_t w = 0;
  for (size_t i = 0; i < s->n; i++) { if (w == 0 || !(s->d[s->h + w - 1] == s->d[s->h + i])) { s->d[s->h + w] = s->d[s->h + i]; w++; } }
  s->n = w;
}
'''


# only for scalar element types (builtin <): std::min_element / max_element / sort on ranges of at most VF_CAP elements
SEQ_SCALAR = r'''
static inline %(T)s* vf_seq_%(G)s_min_element_in(%(T)s* b, %(T)s* e) { size_t cnt = (size_t)(e - b); __CPROVER_assume(cnt <= VF_CAP); size_t best = 0; for (size_t i = 1; i < VF_CAP; i++) { if (i < cnt && b[i] < b[best]) best = i; } return b + best; }
static inline %(T)s* vf_seq_%(G)s_max_element_in(%(T)s* b, %(T)s* e) { size_t cnt = (size_t)(e - b); __CPROVER_assume(cnt <= VF_CAP); size_t best = 0; for (size_t i = 1; i < VF_CAP; i++) { if (i < cnt && b[best] < b[i]) best = i; } return b + best; }
static inline void vf_seq_%(G)s_sort_in(%(T)s* b, %(T)s* e, int desc)
{ /* insertion sort: result is the sorted permutation (what std::sort guarantees for a strict weak order on scalars) */
  size_t cnt = (size_t)(e - b);
  __CPROVER_assume(cnt <= VF_CAP);
  for (size_t i = 1; i < VF_CAP; i++) {
    if (i < cnt) {
      %(T)s v = b[i];
      size_t j = i;
      for (size_t k = 0; k < VF_CAP; k++) {
        if (j > 0 && (desc ? (b[j - 1] < v) : (v < b[j - 1]))) { b[j] = b[j - 1]; j--; }
      }
      b[j] = v;
    }
  }
}
'''

MINMAX = {
    "min": "static inline %(T)s vf_min_%(G)s(%(T)s a, %(T)s b) { return (b < a) ? b : a; }\n",
    "max": "static inline %(T)s vf_max_%(G)s(%(T)s a, %(T)s b) { return (a < b) ? b : a; }\n",
    "clamp": "static inline %(T)s vf_clamp_%(G)s(%(T)s v, %(T)s lo, %(T)s hi) { return (v < lo) ? lo : ((hi < v) ? hi : v); }\n",
    "swap": "static inline void vf_swap_%(G)s(%(T)s* a, %(T)s* b) { %(T)s t = *a; *a = *b; *b = t; }\n",
}

PAIR = "struct vf_pair_%(G)s { %(A)s first; %(B)s second; };\n"
OPT = "struct vf_opt_%(G)s { _Bool has; %(T)s value; };\n"

SET = r'''
/* ---- model of std::set/unordered_set<%(T)s>: distinct keys k[0..n), iteration in insertion order (assumption) ---- */
struct vf_set_%(G)s { %(T)s* k; size_t n; size_t cap; };
/*FUNCS*/
static inline size_t vf_set_%(G)s_size(const struct vf_set_%(G)s* s) { return s->n; }
static inline _Bool vf_set_%(G)s_empty(const struct vf_set_%(G)s* s) { return s->n == 0; }
static inline void vf_set_%(G)s_clear(struct vf_set_%(G)s* s) { s->n = 0; }
static inline %(T)s* vf_set_%(G)s_begin(struct vf_set_%(G)s* s) { return s->k; }
static inline %(T)s* vf_set_%(G)s_end(struct vf_set_%(G)s* s) { return s->k + s->n; }
static inline struct vf_set_%(G)s vf_set_%(G)s_make(void) { struct vf_set_%(G)s s; s.k = (%(T)s*)malloc(sizeof(%(T)s) * VF_CAP); __CPROVER_assume(s.k != 0); s.n = 0; s.cap = VF_CAP; return s; }
static inline struct vf_set_%(G)s vf_set_%(G)s_copy(const struct vf_set_%(G)s* o) { struct vf_set_%(G)s s = vf_set_%(G)s_make(); __CPROVER_assume(o->n <= VF_CAP); for (size_t i = 0; i < VF_CAP; i++) { if (i < o->n) s.k[i] = o->k[i]; } s.n = o->n; return s; }
static inline %(T)s* vf_set_%(G)s_find(struct vf_set_%(G)s* s, %(T)s v)
{
  size_t i = 0;
#ifdef VF_SET_EXACT /* exact variant with a CHECKED bound: unrolled, no loop contract (position of v, or n) */
  __CPROVER_assert(s->n <= VF_SET_EXACT, "vf_set find: size within VF_SET_EXACT");
/*SET_EXACT_FIND*/
#else
  while (i < s->n && !(s->k[i] == v))
    __CPROVER_assigns(i)
    __CPROVER_loop_invariant(i <= s->n)
    __CPROVER_decreases(s->n - i)
  { i++; }
#endif
  return s->k + i;
}
static inline size_t vf_set_%(G)s_count(struct vf_set_%(G)s* s, %(T)s v) { return vf_set_%(G)s_find(s, v) != s->k + s->n; }
static inline _Bool vf_set_%(G)s_contains(struct vf_set_%(G)s* s, %(T)s v) { return vf_set_%(G)s_find(s, v) != s->k + s->n; }
static inline void vf_set_%(G)s_insert(struct vf_set_%(G)s* s, %(T)s v) { if (vf_set_%(G)s_find(s, v) == s->k + s->n) { __CPROVER_assume(s->n < s->cap); s->k[s->n] = v; s->n++; } }
static inline _Bool vf_set_%(G)s_insert_new(struct vf_set_%(G)s* s, %(T)s v) { if (vf_set_%(G)s_find(s, v) == s->k + s->n) { __CPROVER_assume(s->n < s->cap); s->k[s->n] = v; s->n++; return 1; } return 0; }
static inline void vf_set_%(G)s_insert_range(struct vf_set_%(G)s* s, %(T)s* first, %(T)s* last)
{
  size_t k = (size_t)(last - first);
  __CPROVER_assume(k <= VF_CAP);
  VF_FOR_CAP(if (i < k) vf_set_%(G)s_insert(s, first[i]);)
}
static inline size_t vf_set_%(G)s_erase(struct vf_set_%(G)s* s, %(T)s v)
{
  %(T)s* p = vf_set_%(G)s_find(s, v);
  if (p == s->k + s->n) return 0;
  size_t i = (size_t)(p - s->k);
#ifdef VF_SET_EXACT /* exact variant: the tail is shifted element by element (order of the other keys kept) */
/*SET_EXACT_ERASE*/
#else
  for (size_t j = i; j + 1 < s->n; j++)
    __CPROVER_assigns(j, __CPROVER_object_whole(s->k))
    __CPROVER_loop_invariant(i <= j && j < s->n)
    __CPROVER_decreases(s->n - j)
  { s->k[j] = s->k[j + 1]; }
#endif
  s->n--;
  return 1;
}
'''

_sfind = "".join("#if VF_SET_EXACT > %d\n  if (i == %d && i < s->n && !(s->k[i] == v)) i = %d;\n#endif\n" % (j, j, j + 1) for j in range(EXACT_MAX))
_serase = "".join("#if VF_SET_EXACT > %d\n  if (i <= %d && %d < s->n) s->k[%d] = s->k[%d];\n#endif\n" % (j + 1, j, j + 1, j, j + 1) for j in range(EXACT_MAX))
_sguard = "#if VF_SET_EXACT > %d\n#error \"VF_SET_EXACT too large for the unrolled models\"\n#endif\n" % EXACT_MAX
SET = SET.replace("/*SET_EXACT_FIND*/\n", _sguard + _sfind).replace("/*SET_EXACT_ERASE*/\n", _serase)

MAP = r'''
/* ---- model of std::map/unordered_map<%(A)s,%(B)s>: distinct keys, entries e[0..n) ---- */
struct vf_map_%(G)s { struct vf_pair_%(G)s* e; size_t n; size_t cap; };
/*FUNCS*/
static inline size_t vf_map_%(G)s_size(const struct vf_map_%(G)s* s) { return s->n; }
static inline _Bool vf_map_%(G)s_empty(const struct vf_map_%(G)s* s) { return s->n == 0; }
static inline void vf_map_%(G)s_clear(struct vf_map_%(G)s* s) { s->n = 0; }
static inline struct vf_map_%(G)s vf_map_%(G)s_make(void) { struct vf_map_%(G)s s; s.e = (struct vf_pair_%(G)s*)malloc(sizeof(struct vf_pair_%(G)s) * VF_CAP); __CPROVER_assume(s.e != 0); s.n = 0; s.cap = VF_CAP; return s; }
static inline struct vf_pair_%(G)s* vf_map_%(G)s_begin(struct vf_map_%(G)s* s) { return s->e; }
static inline struct vf_pair_%(G)s* vf_map_%(G)s_end(struct vf_map_%(G)s* s) { return s->e + s->n; }
static inline struct vf_pair_%(G)s* vf_map_%(G)s_find(struct vf_map_%(G)s* s, %(A)s k)
{
#ifdef VF_EXACT_MODELS /* exact for every map of at most VF_CAP entries: constant-bound loop, unwound completely */
  size_t r = s->n;
  __CPROVER_assert(s->n <= VF_CAP, "vf_map within model capacity");
  for (size_t i = 0; i < VF_CAP; i++) { if (i < s->n && r == s->n && s->e[i].first == k) r = i; }
  return s->e + r;
#else
  size_t i = 0;
  while (i < s->n && !(s->e[i].first == k))
    __CPROVER_assigns(i)
    __CPROVER_loop_invariant(i <= s->n)
    __CPROVER_decreases(s->n - i)
  { i++; }
  return s->e + i;
#endif
}
static inline size_t vf_map_%(G)s_count(struct vf_map_%(G)s* s, %(A)s k) { return vf_map_%(G)s_find(s, k) != s->e + s->n; }
static inline _Bool vf_map_%(G)s_contains(struct vf_map_%(G)s* s, %(A)s k) { return vf_map_%(G)s_find(s, k) != s->e + s->n; }
static inline %(B)s* vf_map_%(G)s_index(struct vf_map_%(G)s* s, %(A)s k)
{
  struct vf_pair_%(G)s* p = vf_map_%(G)s_find(s, k);
  if (p == s->e + s->n) { __CPROVER_assume(s->n < s->cap); p->first = k; memset(&p->second, 0, sizeof(%(B)s)); s->n++; }
  return &p->second;
}
static inline %(B)s* vf_map_%(G)s_at(struct vf_map_%(G)s* s, %(A)s k)
{
  struct vf_pair_%(G)s* p = vf_map_%(G)s_find(s, k);
  __CPROVER_assert(p != s->e + s->n, "vf_map at: key present");
  return &p->second;
}
static inline void vf_map_%(G)s_insert(struct vf_map_%(G)s* s, %(A)s k, %(B)s v)
{
  struct vf_pair_%(G)s* p = vf_map_%(G)s_find(s, k);
  if (p == s->e + s->n) { __CPROVER_assume(s->n < s->cap); p->first = k; p->second = v; s->n++; }
}
static inline void vf_map_%(G)s_insert_pair(struct vf_map_%(G)s* s, struct vf_pair_%(G)s v) { vf_map_%(G)s_insert(s, v.first, v.second); }
static inline void vf_map_%(G)s_set(struct vf_map_%(G)s* s, %(A)s k, %(B)s v) { *vf_map_%(G)s_index(s, k) = v; }
static inline size_t vf_map_%(G)s_erase(struct vf_map_%(G)s* s, %(A)s k)
{
  struct vf_pair_%(G)s* p = vf_map_%(G)s_find(s, k);
  if (p == s->e + s->n) return 0;
  size_t i = (size_t)(p - s->e);
#ifdef VF_EXACT_MODELS
  for (size_t j = 0; j + 1 < VF_CAP; j++) { if (j >= i && j + 1 < s->n) s->e[j] = s->e[j + 1]; }
  s->n--;
  return 1;
#else
  for (size_t j = i; j + 1 < s->n; j++)
    __CPROVER_assigns(j, __CPROVER_object_whole(s->e))
    __CPROVER_loop_invariant(i <= j && j < s->n)
    __CPROVER_decreases(s->n - j)
  { s->e[j] = s->e[j + 1]; }
  s->n--;
  return 1;
#endif
}
static inline struct vf_pair_%(G)s* vf_map_%(G)s_erase_it(struct vf_map_%(G)s* s, struct vf_pair_%(G)s* it)
{
  __CPROVER_assert(it != s->e + s->n, "vf_map erase(iterator): not end()");
  vf_map_%(G)s_erase(s, it->first);
  return it;
}
'''

IHOOK ="struct vf_ihook { _Bool linked; }; /* boost::intrusive::list_member_hook<>: only is_linked() is observable */\n"

ILIST = r'''
/* ---- model of boost::intrusive::list<%(S)s, member_hook<.., &%(S)s::%(H)s>>: the linked elements in list order are
 * d[0..n); an element is in (some) list of this type iff its hook says linked (safe_link mode). Capacity VF_ICAP.
 * Loops run over the constant capacity (unwound completely): order-preserving and exact, no loop contracts.        ---- */
struct vf_ilist_%(G)s { size_t n; %(T)s* d[VF_ICAP]; };
/*FUNCS*/
static inline size_t vf_ilist_%(G)s_size(const struct vf_ilist_%(G)s* l) { return l->n; }
static inline _Bool vf_ilist_%(G)s_empty(const struct vf_ilist_%(G)s* l) { return l->n == 0; }
static inline %(T)s** vf_ilist_%(G)s_begin(struct vf_ilist_%(G)s* l) { return &l->d[0]; }
static inline %(T)s** vf_ilist_%(G)s_end(struct vf_ilist_%(G)s* l) { return &l->d[l->n]; }
static inline %(T)s* vf_ilist_%(G)s_front(struct vf_ilist_%(G)s* l) { __CPROVER_assert(l->n > 0, "vf_ilist front on non-empty"); return l->d[0]; }
static inline %(T)s* vf_ilist_%(G)s_back(struct vf_ilist_%(G)s* l) { __CPROVER_assert(l->n > 0, "vf_ilist back on non-empty"); return l->d[l->n - 1]; }
static inline void vf_ilist_%(G)s_push_back(struct vf_ilist_%(G)s* l, %(T)s* e)
{
  __CPROVER_assert(!e->%(H)s.linked, "vf_ilist push_back: node not already linked (boost safe-link precondition)");
  __CPROVER_assume(l->n < VF_ICAP); /* model capacity */
  l->d[l->n] = e; l->n++; e->%(H)s.linked = 1;
}
static inline void vf_ilist_%(G)s_push_front(struct vf_ilist_%(G)s* l, %(T)s* e)
{
  __CPROVER_assert(!e->%(H)s.linked, "vf_ilist push_front: node not already linked (boost safe-link precondition)");
  __CPROVER_assume(l->n < VF_ICAP); /* model capacity */
  for (size_t j = VF_ICAP - 1; j > 0; j--) { if (j <= l->n) l->d[j] = l->d[j - 1]; }
  l->d[0] = e; l->n++; e->%(H)s.linked = 1;
}
static inline %(T)s** vf_ilist_%(G)s_iterator_to(struct vf_ilist_%(G)s* l, %(T)s* e)
{
  size_t i = l->n;
  for (size_t j = VF_ICAP; j > 0; j--) { if (j - 1 < l->n && l->d[j - 1] == e) i = j - 1; }
  __CPROVER_assert(i < l->n, "vf_ilist iterator_to: element is linked in this list");
  return &l->d[i];
}
static inline %(T)s** vf_ilist_%(G)s_erase(struct vf_ilist_%(G)s* l, %(T)s** it)
{
  size_t i = (size_t)(it - &l->d[0]);
  __CPROVER_assert(i < l->n, "vf_ilist erase: valid iterator");
  l->d[i]->%(H)s.linked = 0;
  for (size_t j = 0; j + 1 < VF_ICAP; j++) { if (i <= j && j + 1 < l->n) l->d[j] = l->d[j + 1]; }
  l->n--;
  return it;
}
static inline void vf_ilist_%(G)s_erase_elem(struct vf_ilist_%(G)s* l, %(T)s* e) { vf_ilist_%(G)s_erase(l, vf_ilist_%(G)s_iterator_to(l, e)); }
static inline void vf_ilist_%(G)s_pop_front(struct vf_ilist_%(G)s* l) { __CPROVER_assert(l->n > 0, "vf_ilist pop_front on non-empty"); vf_ilist_%(G)s_erase(l, &l->d[0]); }
static inline void vf_ilist_%(G)s_pop_back(struct vf_ilist_%(G)s* l) { __CPROVER_assert(l->n > 0, "vf_ilist pop_back on non-empty"); l->n--; l->d[l->n]->%(H)s.linked = 0; }
static inline void vf_ilist_%(G)s_clear(struct vf_ilist_%(G)s* l)
{
  for (size_t j = 0; j < VF_ICAP; j++) { if (j < l->n) l->d[j]->%(H)s.linked = 0; }
  l->n = 0;
}
'''


def is_structy(ct):
    return ct.startswith("struct ") and not ct.endswith("*")


def struct_defs(tm):
    """[(tag, text, by-value deps)] for every model struct"""
    out = []
    for tag, (a, b) in tm.pair_insts.items():
        deps = [x[7:] for x in (a, b) if is_structy(x)]
        out.append(("vf_pair_" + tag, PAIR % {"G": tag, "A": a, "B": b}, deps))
    for tag, t in tm.opt_insts.items():
        out.append(("vf_opt_" + tag, OPT % {"G": tag, "T": t}, [t[7:]] if is_structy(t) else []))
    for tag, (t, n) in tm.arr_insts.items():
        out.append(("vf_arr_" + tag, "struct vf_arr_%s { %s a[%s]; }; /* std::array */\n" % (tag, t, n),
                    [t[7:]] if is_structy(t) else []))
    for tag, t in tm.seq_insts.items():
        out.append(("vf_seq_" + tag, (SEQ % {"G": tag, "T": t, "EQ": ""}).split("/*FUNCS*/")[0], []))
    if getattr(tm, "need_ihook", False) or tm.ilist_insts:
        out.append(("vf_ihook", IHOOK, []))
    for tag, (t, hook) in tm.ilist_insts.items():
        out.append(("vf_ilist_" + tag, (ILIST % {"G": tag, "T": t, "S": t[7:], "H": hook}).split("/*FUNCS*/")[0], []))
    for tag, t in tm.set_insts.items():
        out.append(("vf_set_" + tag, (SET % {"G": tag, "T": t}).split("/*FUNCS*/")[0], []))
    for tag, (a, b) in tm.map_insts.items():
        out.append(("vf_map_" + tag, (MAP % {"G": tag, "A": a, "B": b}).split("/*FUNCS*/")[0], []))
    return out


def gen_funcs(tm, lib):
    from cxxtypes import ident
    out = []
    for tag, t in tm.seq_insts.items():
        eq = ("memcmp(&b[i], &v, sizeof(%s)) == 0" % t) if is_structy(t) else "b[i] == v"
        out.append((SEQ % {"G": tag, "T": t, "EQ": eq}).split("/*FUNCS*/")[1])
        out.append(SEQ_EXTRA % {"G": tag, "T": t})
        if not is_structy(t) and not t.endswith("*"):
            out.append(SEQ_SCALAR % {"G": tag, "T": t})
        # resize(n, v): every new element is a COPY of v (a deep one when the elements are themselves sequences)
        copyv = "vf_seq_%s_copy(&v)" % t[len("struct vf_seq_"):] if t.startswith("struct vf_seq_") else "v"
        if t.startswith("struct vf_seq_"):
            out.append(SEQ_FILL % {"G": tag, "T": t, "COPYV": copyv})
        if ("seq_sort", tag) in lib.need:
            out.append(SEQ_SORT % {"G": tag, "T": t})
    for tag, t in tm.set_insts.items():
        out.append((SET % {"G": tag, "T": t}).split("/*FUNCS*/")[1])
    for tag, (a, b) in tm.map_insts.items():
        out.append((MAP % {"G": tag, "A": a, "B": b}).split("/*FUNCS*/")[1])
    for tag, (t, hook) in tm.ilist_insts.items():
        out.append((ILIST % {"G": tag, "T": t, "S": t[7:], "H": hook}).split("/*FUNCS*/")[1])
    for kind, ct in sorted(lib.minmax):
        out.append(MINMAX[kind] % {"T": ct, "G": ident(ct)})
    return "".join(out)
