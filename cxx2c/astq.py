#!/usr/bin/env python3
"""Query clang for the JSON AST of one qualified name in one TU of /repo (real compile flags)."""
import json, os, re, subprocess, sys, hashlib

REPO = os.environ.get("VF_REPO", "/repo")
NINJA = os.path.join(REPO, "_build", "build.ninja")
FALLBACK_FLAGS = ["-DBOOST_CONTEXT_DYN_LINK", "-DBOOST_CONTEXT_NO_LIB", "-Dsimgrid_EXPORTS", "-DNDEBUG",
                  "-std=gnu++20", "-I%s/_build/include" % REPO, "-I%s/include" % REPO, "-I/usr/include/eigen3",
                  "-I%s/_build" % REPO, "-I%s" % REPO, "-I%s/src/smpi/include" % REPO]
_flag_cache = {}


def tu_flags(tu):
    """DEFINES + INCLUDES + -std/-D from FLAGS of the TU's build statement in build.ninja."""
    if tu in _flag_cache:
        return _flag_cache[tu]
    flags = None
    if os.path.exists(NINJA):
        want = os.path.join(REPO, tu)
        with open(NINJA, errors="replace") as f:
            lines = f.read().split("\n")
        for i, l in enumerate(lines):
            if l.startswith("build ") and (" " + want + " ") in (l + " ") and ".o:" in l:
                d = {}
                for m in lines[i + 1:i + 12]:
                    mm = re.match(r"\s+(\w+) = (.*)", m)
                    if not mm:
                        break
                    d[mm.group(1)] = mm.group(2)
                fl = []
                fl += d.get("DEFINES", "").split()
                for t in d.get("FLAGS", "").split():
                    if t.startswith("-std=") or (t.startswith("-D") and "FORTIFY" not in t):
                        fl.append(t)
                inc = d.get("INCLUDES", "").split()
                j = 0
                while j < len(inc):
                    if inc[j] == "-isystem":
                        j += 2  # conda include dir is irrelevant to SimGrid sources
                        continue
                    fl.append(inc[j])
                    j += 1
                flags = fl
                break
    if flags is None:
        flags = list(FALLBACK_FLAGS)
        if REPO != "/repo":
            # scratch worktree without a build directory: generated headers come from the main build
            flags += ["-I/repo/_build/include", "-I/repo/_build"]
        if tu.endswith(".c"):
            flags = [f for f in flags if not f.startswith("-std=")]
    _flag_cache[tu] = flags
    return flags


class ClangError(Exception):
    pass


# AST dumps are memoised in the process and cached on disk. The disk key covers the clang command line and the
# (path, mtime, size) of the TU and of every file it includes (one `clang -M` per TU per process), so any edit of the
# working tree re-runs clang. VF_NO_AST_CACHE=1 turns the disk cache off.
CACHE_DIR = os.environ.get("VF_AST_CACHE")  # disk cache is opt-in (development only); registered checks always run clang
_mem = {}
_deps = {}


def deps_key(tu, cc, extra_flags=()):
    if os.environ.get("VF_NO_AST_CACHE") or not CACHE_DIR:
        return None
    k = (tu, tuple(extra_flags))
    if k not in _deps:
        p = subprocess.run([cc] + tu_flags(tu) + list(extra_flags) + ["-M", "-Wno-everything", os.path.join(REPO, tu)],
                           capture_output=True, text=True)
        if p.returncode != 0:
            _deps[k] = None
        else:
            files = [f for f in p.stdout.replace("\\\n", " ").split()[1:] if f != "\\"]
            h = hashlib.sha1()
            for f in sorted(set(files)):
                try:
                    st = os.stat(f)
                    h.update(("%s:%d:%d;" % (os.path.abspath(f), st.st_mtime_ns, st.st_size)).encode())
                except OSError:
                    h.update(("%s:missing;" % f).encode())
            _deps[k] = h.hexdigest()
    return _deps[k]


def query(tu, name, extra_flags=()):
    """Return list of top-level decl nodes whose qualified name matches `name` (clang's substring filter)."""
    cc = "clang" if tu.endswith(".c") else "clang++"
    cmd = [cc] + tu_flags(tu) + list(extra_flags) + ["-fsyntax-only", "-Wno-everything", "-Xclang", "-ast-dump=json",
                                                     "-Xclang", "-ast-dump-filter=" + name, os.path.join(REPO, tu)]
    mkey = (tu, name, tuple(extra_flags))
    if mkey in _mem:
        return _mem[mkey]
    s = None
    cfile = None
    dk = deps_key(tu, cc, extra_flags)
    if dk is not None:
        cfile = os.path.join(CACHE_DIR, hashlib.sha1((dk + "|" + " ".join(cmd)).encode()).hexdigest() + ".json")
        if os.path.exists(cfile):
            with open(cfile) as f:
                s = f.read()
    if s is None:
        p = subprocess.run(cmd, capture_output=True, text=True)
        if p.returncode != 0:
            raise ClangError("clang failed on %s: %s" % (tu, p.stderr[-2000:]))
        s = p.stdout
        if cfile is not None:
            try:
                os.makedirs(CACHE_DIR, exist_ok=True)
                tmp = cfile + ".%d.tmp" % os.getpid()
                with open(tmp, "w") as f:
                    f.write(s)
                os.replace(tmp, cfile)
            except OSError:
                pass
    dec = json.JSONDecoder()
    i, objs = 0, []
    n = len(s)
    while i < n:
        while i < n and s[i].isspace():
            i += 1
        if i >= n:
            break
        o, j = dec.raw_decode(s, i)
        objs.append(o)
        i = j
    _mem[mkey] = objs
    return objs


def qt(n):
    t = n.get("type")
    if isinstance(t, dict):
        return t.get("qualType")
    return None


def show(n, d=0, out=sys.stdout, maxd=99):
    if d > maxd:
        return
    extra = {}
    for k, v in n.items():
        if k in ("inner", "id", "loc", "range", "kind"):
            continue
        if isinstance(v, dict) and "qualType" in v:
            v = v["qualType"] + (" => " + v["desugaredQualType"] if "desugaredQualType" in v else "")
        if k == "referencedDecl":
            v = "%s %s : %s" % (v.get("kind"), v.get("name"), (v.get("type") or {}).get("qualType"))
        extra[k] = v
    out.write("  " * d + n.get("kind", "?") + " " + json.dumps(extra)[:260] + "\n")
    for c in n.get("inner", []):
        show(c, d + 1, out, maxd)


if __name__ == "__main__":
    tu, name = sys.argv[1], sys.argv[2]
    for o in query(tu, name):
        if o.get("kind") in ("CXXMethodDecl", "FunctionDecl", "CXXConstructorDecl", "FunctionTemplateDecl",
                             "CXXRecordDecl", "ClassTemplateDecl", "CXXDestructorDecl", "VarDecl"):
            show(o)
