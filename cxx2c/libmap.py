"""Library map: how calls into std/boost entities are rendered on the C models of /verif/models (DESIGN.md 3.2)."""
import re
from cxxtypes import Unsupported, parse, strip_ref, peel, ident, T, SEQS, SMART_PTRS, SEQ_ADAPTORS
from emit import skip, qt, TRANSPARENT, contains

BUILTIN_OPS = {"==", "!=", "<", ">", "<=", ">=", "+", "-", "*", "/", "%", "=", "+=", "-=", "*=", "/=", "&", "|",
               "^", "&&", "||", "<<", ">>", "|=", "&=", "^="}
MATH1 = {"fabs", "sqrt", "floor", "ceil", "log", "log2", "exp", "round", "trunc", "isnan", "isinf", "isfinite",
         "lround", "llround", "abs", "pow", "fmod", "fmax", "fmin", "nearbyint", "rint", "log10", "cbrt", "labs"}
CLIB = {"memcpy", "memmove", "memset", "memcmp", "strlen", "strcmp", "strncmp", "strcpy", "strncpy", "malloc",
        "calloc", "realloc", "free", "strtol", "strtod", "strtoul", "strtoll", "strcasecmp", "strncasecmp",
        "qsort", "strchr", "strrchr", "strstr"}


def is_scalar(ct):
    return not ct.startswith("struct ") or ct.endswith("*")


class LibMap:
    def __init__(self):
        self.minmax = set()  # (kind, ctype)
        self.find_insts = set()
        self.need = set()

    # ------------------------------------------------------------------ helpers
    def seq_tag(self, em, t):
        ct = em.tm.c(strip_ref(t))
        if ct.startswith("struct vf_seq_"):
            return ct[len("struct vf_seq_"):]
        return None

    def obj_ptr(self, em, base, is_arrow):
        """pointer expression to the object `base` designates"""
        e = em.E(base)
        if is_arrow:
            return e
        return em.addr_of_expr_string(e, base)

    def scalar_class_of(self, em, n):
        try:
            t = peel(em.tm, em.ptype(n)) if False else strip_ref(em.tm.resolve(em.ptype(n)))
        except Unsupported:
            return None
        if t.kind == "named" and not t.args and t.last in em.tm.scalar_classes:
            return em.tm.scalar_classes[t.last]
        return None

    def mapped(self, em, n):
        try:
            return em.ctype(n)
        except Unsupported:
            return None

    # ------------------------------------------------------------------ operators
    def operator_call(self, em, n, name, args, fnt, rd):
        op = name[len("operator"):].strip()
        a0 = args[0]
        ct0 = self.mapped(em, a0)
        if ct0 is None:
            return None
        if self.is_rev_iter(em, a0):
            # std::reverse_iterator is represented by its base() pointer
            x = em.paren(em.E(a0))
            if op == "++":
                return "%s--" % x if len(args) == 2 else "--%s" % x
            if op == "--":
                return "%s++" % x if len(args) == 2 else "++%s" % x
            if op == "*" and len(args) == 1:
                return "(*(%s - 1))" % x
            if op == "->":
                return "(%s - 1)" % x
            if op in ("==", "!=", "=") and len(args) == 2 and self.is_rev_iter(em, args[1]):
                return "%s %s %s" % (x, op, em.paren(em.E(args[1])))
            return None
        if ct0.startswith("struct vf_seq_") and not ct0.endswith("*"):  # (a smart pointer TO a container is a scalar)
            tag = ct0[len("struct vf_seq_"):]
            if op == "[]":
                return "(*vf_seq_%s_at(%s, %s))" % (tag, em.addr_of(a0), em.E(args[1]))
            if op == "=":
                src = args[1]
                if skip(src).get("kind") == "CXXConstructExpr" and not skip(src).get("inner"):
                    return "vf_seq_%s_clear(%s)" % (tag, em.addr_of(a0))
                if src.get("valueCategory") == "lvalue":
                    return "vf_seq_%s_assign(%s, %s)" % (tag, em.addr_of(a0), em.addr_of(src))
                return "%s = %s" % (em.paren(em.E(a0)), em.E(src))
            if op in ("==", "!="):
                e = "vf_seq_%s_equal(%s, %s)" % (tag, em.addr_of(a0), em.addr_of(args[1]))
                return e if op == "==" else "(!%s)" % e
            return None
        if ct0.startswith("struct vf_opt_"):
            if op == "*":
                return "%s.value" % em.paren(em.E(a0))
            if op == "->":
                return "(&%s.value)" % em.paren(em.E(a0))
            if op == "=":
                src = args[1]
                sct = self.mapped(em, src)
                if sct == ct0:
                    return "%s = %s" % (em.paren(em.E(a0)), em.E(src))
                return "(%s.has = 1, %s.value = %s)" % (em.paren(em.E(a0)), em.paren(em.E(a0)), em.E(src))
            return None
        if ct0.startswith("struct vf_arr_") and op == "[]":
            return "%s.a[%s]" % (em.paren(em.E(a0)), em.E(args[1]))
        sc = self.scalar_class_of(em, a0)
        if sc is not None and op not in sc.get("ops", []):
            return None  # wrapper class mapped to a scalar: only the operators declared equivalent are builtin
        if ct0 == "struct vf_mt19937" and op == "()":
            # the only random source of the xbt generator: assumed callee (contract: value in [0, 2^w-1])
            em.note_proto("vf_mt19937_next", "unsigned long", ["struct vf_mt19937*"], "std::mt19937::operator()")
            em.callees["vf_mt19937_next"] = "std::mersenne_twister_engine::operator()"
            return "vf_mt19937_next(%s)" % em.addr_of(a0)
        if ct0.startswith("struct vf_fn") and not ct0.endswith("*"):  # (an iterator over closures is a scalar)
            if op == "()":
                f = em.paren(em.E(a0))
                return self.fn_call(em, n, f, args[1:], fnt)
            if op == "=":
                src = skip(args[1])
                while src.get("kind") in ("CXXConstructExpr", "CXXFunctionalCastExpr") and len(src.get("inner", [])) == 1:
                    src = skip(src["inner"][0])
                if src.get("kind") == "LambdaExpr":  # stored closure: its captures must outlive the block
                    return "%s = %s" % (em.paren(em.E(a0)), em.lift_lambda(src, heap=True))
                sct = self.mapped(em, args[1])
                if src.get("kind") in ("CXXNullPtrLiteralExpr", "GNUNullExpr") or sct == "void*":
                    return "%s = ((struct vf_fn){0})" % em.paren(em.E(a0))  # f = nullptr
                if sct != "struct vf_fn":
                    v = self.to_vf_fn(em, args[1])  # f = lambda / function pointer
                    if v is None:
                        return None
                    return "%s = %s" % (em.paren(em.E(a0)), v)
                return "%s = %s" % (em.paren(em.E(a0)), em.E(args[1]))
            return None
        if ct0.startswith("struct vf_map_") and op == "[]":
            tag = ct0[len("struct vf_map_"):]
            return "(*vf_map_%s_index(%s, %s))" % (tag, em.addr_of(a0), em.E(args[1]))
        if ct0.startswith("struct vf_pair_") and op == "=":
            return "%s = %s" % (em.paren(em.E(a0)), em.E(args[1]))
        if self.is_ilist_iter(em, a0) and len(args) == 1 and op in ("*", "->"):
            # iterator of an intrusive list = pointer into the array of element pointers
            return "(**%s)" % em.paren(em.E(a0)) if op == "*" else "(*%s)" % em.paren(em.E(a0))
        if is_scalar(ct0) or ct0 == "vf_str":
            # smart pointers, iterators, atomics, string ids: builtin operator on the mapped value
            if op == "->":
                return em.E(a0)
            if op == "*" and len(args) == 1:
                return "(*%s)" % em.paren(em.E(a0))
            if op in ("++", "--"):
                if len(args) == 2:
                    return "%s%s" % (em.paren(em.E(a0)), op)
                return "%s%s" % (op, em.paren(em.E(a0)))
            if op == "[]":
                return "%s[%s]" % (em.paren(em.E(a0)), em.E(args[1]))
            if op == "!" and len(args) == 1:
                return "!%s" % em.paren(em.E(a0))
            if op in BUILTIN_OPS and len(args) == 2:
                ct1 = self.mapped(em, args[1])
                if ct1 is not None and (is_scalar(ct1) or ct1 == "vf_str"):
                    if ct0 == "vf_str" and op == "+" and ct1 == "vf_str":
                        # string contents are outside the subset: concatenation is an opaque callee (needs a contract)
                        em.note_proto("vf_str_concat", "vf_str", ["vf_str", "vf_str"], "std::string operator+")
                        em.callees["vf_str_concat"] = "std::operator+(std::string, std::string)"
                        em.callflag = True
                        return "vf_str_concat(%s, %s)" % (em.E(a0), em.E(args[1]))
                    if ct0 == "vf_str" and op in ("+", "+=", "<", ">"):
                        return None
                    if op in ("==", "!=") and {ct0, ct1} == {"vf_str", "char*"}:
                        # std::string compared with a C string: content comparison -> compare string ids
                        x, y = [self.str_fn(em, "vf_str_from_cstr", "vf_str", ["char*"], [em.E(a)])
                                if c == "char*" else em.paren(em.E(a)) for a, c in ((a0, ct0), (args[1], ct1))]
                        return "%s %s %s" % (x, op, y)
                    return "%s %s %s" % (em.paren(em.E(a0)), op, em.paren(em.E(args[1])))
            if op == "-" and len(args) == 1:
                return "-%s" % em.paren(em.E(a0))
        if op == "=" and ct0.startswith("struct ") and self.mapped(em, args[1]) == ct0:
            if ct0[7:] in em.cfg.get("pod_structs", []) or ct0.startswith("struct vf_"):
                return "%s = %s" % (em.paren(em.E(a0)), em.E(args[1]))
        return None

    def fn_call(self, em, n, f, args, fnt=None):
        """call of a modelled std::function / closure value f (struct vf_fn {fn, env}); the parameter passing
        convention comes from the signature of its operator() when clang prints one, else from the arguments"""
        avs, pcs = None, []
        em.callflag = True  # a callback may raise
        if fnt:
            try:
                params = em.fn_params_from(fnt)
                pcs = em.param_ctypes_from(fnt)
                ret, isref = em.ret_ctype_from(fnt)
                if not isref and len(params) == len(args) == len(pcs):
                    avs = em.call_args(args, params)
            except Unsupported:
                avs = None
        if avs is not None:
            cast = "%s (*)(%s)" % (ret, ", ".join(["void*"] + pcs))
            return "((%s)%s.fn)(%s)" % (cast, f, ", ".join(["%s.env" % f] + avs))
        avs, pcs = [], []
        for a in args:
            r = em.infer_arg(a)
            pcs.append(r[0])
            avs.append(r[1])
        ret = em.ctype(n)
        cast = "%s (*)(%s)" % (ret, ", ".join(["void*"] + pcs))
        return "((%s)%s.fn)(%s)" % (cast, f, ", ".join(["%s.env" % f] + avs))

    def indirect_call(self, em, n, callee, args):
        ct = self.mapped(em, callee)
        if ct == "vf_fnptr":
            # plain function pointer: cast to the concrete type from the C++ type
            t = parse(qt(skip(callee)) if qt(skip(callee)) else qt(callee))
            while t.kind in ("ptr", "ref"):
                t = t.to
            if t.kind != "func":
                return None
            pcs = [em.param_ctype(p) for p in t.params]
            ret = em.tm.c(t.ret)
            avs = em.call_args(args, t.params)
            return "((%s (*)(%s))%s)(%s)" % (ret, ", ".join(pcs) if pcs else "void", em.paren(em.E(callee)),
                                              ", ".join(avs))
        return None

    # ------------------------------------------------------------------ member calls
    def is_rev_iter(self, em, n):
        try:
            t = strip_ref(em.tm.resolve(em.ptype(n)))
        except Unsupported:
            return False
        return t.kind == "named" and t.last == "reverse_iterator" and bool(t.args)

    def range_args(self, em, a, b, want=None):
        """iterator pair [a, b) over a modelled sequence: (is_reverse, C expr of a, C expr of b) or None; reverse
        iterators are their base() pointers (the _rev models read downwards from the first base pointer)"""
        ca, cb = self.mapped(em, a), self.mapped(em, b)
        if ca is None or ca != cb or not ca.endswith("*") or (want and "?" not in want and ca != want):
            return None
        ra, rb = self.is_rev_iter(em, a), self.is_rev_iter(em, b)
        if ra != rb:
            return None
        return ra, em.E(a), em.E(b)

    def member_call(self, em, n, me, base, name, args):
        if name == "base" and not args and self.is_rev_iter(em, base):
            return em.E(base)
        bt = em.ptype(base)
        try:
            ct = em.tm.c(strip_ref(em.tm.resolve(bt)))
        except Unsupported:
            return None
        arrow = me.get("isArrow")
        if arrow and ct.endswith("*"):
            # method called through a raw pointer to a modelled type
            pointee = ct[:-1]
        elif ct.endswith("*"):
            # member of a smart pointer OBJECT (p.get(), p.reset(..)): not a call on the pointed-to model container
            pointee = "*"
        else:
            pointee = ct
        if pointee.startswith("struct vf_seq_"):
            rt = strip_ref(em.tm.resolve(bt))
            if arrow and rt.kind == "ptr":
                rt = strip_ref(em.tm.resolve(rt.to))
            if rt.kind == "named" and rt.last in SEQ_ADAPTORS:
                # std::stack<T>: push/pop/top act on the back of the underlying sequence
                name = SEQ_ADAPTORS[rt.last].get(name, name)
            return self.seq_call(em, n, pointee[len("struct vf_seq_"):], self.obj_ptr(em, base, arrow), name, args)
        if pointee == "struct vf_std_mutex" and name in ("lock", "unlock") and not args:
            # std::mutex of the host program (real threads are outside the sequential model, DESIGN 1): no-op, reported
            em.dropped.append("std::mutex::" + name)
            return "((void)0)"
        if pointee.startswith("struct vf_arr_"):
            # std::array<T,N> -> struct vf_arr_T_N { T a[N]; }
            o = "%s->a" % em.paren(self.obj_ptr(em, base, arrow))
            if name == "data" or name in ("begin", "cbegin"):
                return "(%s)" % o
            if name in ("at",) and len(args) == 1:
                return "%s[%s]" % (o, em.E(args[0]))
            if name == "size":
                return "((unsigned long)%s)" % em.tm.arr_insts[pointee[len("struct vf_arr_"):]][1]
            return None
        if pointee.startswith("struct vf_ilist_"):
            return self.ilist_call(em, n, pointee[len("struct vf_ilist_"):], self.obj_ptr(em, base, arrow), name, args)
        if pointee == "struct vf_ihook":
            o = em.E(base)
            o = ("(*%s)" % o) if arrow else em.paren(o)
            if name == "is_linked":
                return "%s.linked" % o
            return None
        if pointee.startswith("struct vf_opt_"):
            o = em.E(base)
            o = ("(*%s)" % o) if arrow else em.paren(o)
            if name == "has_value":
                return "%s.has" % o
            if name == "value":
                return "%s.value" % o
            if name == "reset":
                return "%s.has = 0" % o
            if name == "operator bool":
                return "%s.has" % o
            return None
        if pointee.startswith("struct vf_map_"):
            return self.map_call(em, n, pointee[len("struct vf_map_"):], self.obj_ptr(em, base, arrow), name, args)
        if pointee.startswith("struct vf_set_"):
            return self.set_call(em, n, pointee[len("struct vf_set_"):], self.obj_ptr(em, base, arrow), name, args)
        if pointee == "struct vf_fn":
            o = em.paren(em.E(base))
            if name == "operator bool":
                return "(%s.fn != 0)" % o
            return None
        if pointee == "vf_str":
            o = em.paren(em.E(base))
            if name in ("c_str", "data"):
                return self.str_fn(em, "vf_str_cstr", "char*", ["vf_str"], [o])
            if name == "empty":
                return self.str_fn(em, "vf_str_empty", "_Bool", ["vf_str"], [o])
            if name in ("size", "length"):
                return self.str_fn(em, "vf_str_size", "size_t", ["vf_str"], [o])
            if name.startswith("operator basic_string_view") and self.mapped(em, n) == "vf_str":
                return o  # string -> string_view: same opaque id
            # any other std::string member function: opaque callee on string ids (needs an assumed contract in the spec)
            pcs, avs = ["vf_str"], [o]
            for a in args:
                r = em.infer_arg(a)
                if r is None:
                    return None
                pcs.append(r[0])
                avs.append(r[1])
            cn = "vf_str_" + ident(name)
            em.note_proto(cn, em.ctype(n), pcs, "std::string::%s" % name)
            em.callees[cn] = "std::string::%s" % name
            return "%s(%s)" % (cn, ", ".join(avs))
        # it->get() / it->operator bool() where `it` points to a smart pointer OBJECT (container iterator, T**)
        if arrow and ct.endswith("**") and name in ("get", "operator bool") and not args:
            try:
                pt = strip_ref(em.tm.resolve(bt))
                inner_t = strip_ref(em.tm.resolve(pt.to)) if pt.kind == "ptr" else None
            except Unsupported:
                inner_t = None
            if inner_t is not None and inner_t.kind == "named" and inner_t.last in SMART_PTRS:
                o = "(*%s)" % em.paren(em.E(base))
                return o if name == "get" else "(%s != 0)" % o
            if inner_t is not None and inner_t.kind == "named" and inner_t.last == "reference_wrapper" and name == "get":
                # opt->get() on std::optional<std::reference_wrapper<T>>: the wrapper is the T* it holds, get() the T lvalue
                return "(**%s)" % em.paren(em.E(base))
        # smart pointers / atomics on a non-arrow base whose mapped type is scalar
        if not arrow and is_scalar(ct):
            o = em.E(base)
            if name == "get":
                try:
                    rwt = strip_ref(em.tm.resolve(bt))
                except Unsupported:
                    rwt = None
                if rwt is not None and rwt.kind == "named" and rwt.last == "reference_wrapper":
                    return "(*%s)" % em.paren(o)  # std::reference_wrapper<T>::get(): the T lvalue behind the held T*
                return o
            if name == "operator bool":
                return "(%s != 0)" % em.paren(o)
            if name == "reset":
                if args:
                    return "%s = %s" % (em.paren(o), em.E(args[0]))
                return "%s = 0" % em.paren(o)
            if name == "release" or name == "detach":
                tmp = em.new_tmp(ct, o)
                em.pre.append("%s = 0;" % em.paren(o))
                return tmp
            if name == "load":
                return o
            if name == "store":
                return "%s = %s" % (em.paren(o), em.E(args[0]))
            if name in ("fetch_add", "fetch_sub"):
                # std::atomic<T>::fetch_add: an assumed callee `T vf_fetch_add_T(T* p, T v)` (the spec gives it a contract
                # or a body: plain `old = *p; *p += v; return old;` or an interference-tolerant model); memory order dropped
                fa = "vf_fetch_add_%s" % ident(ct)
                em.note_proto(fa, ct, [ct + "*", ct], "std::atomic<%s>::fetch_add (memory order dropped)" % ct)
                em.callees.setdefault(fa, "std::atomic<%s>::fetch_add" % ct)
                av = em.E(args[0])
                return "%s(&%s, %s)" % (fa, em.paren(o), av if name == "fetch_add" else "-(%s)" % av)
            if name == "swap":
                return None
            if name in ("operator int", "operator long", "operator unsigned long", "operator __int_type",
                        "operator unsigned int", "operator bool"):
                return o
            if name.startswith("operator "):
                return o
        return None

    def str_fn(self, em, cn, ret, pcs, avs):
        """operation of the opaque string model: an undefined C function (the spec gives it an assumed contract)"""
        em.note_proto(cn, ret, pcs, "std::string model")
        em.callees[cn] = "std::string model operation"
        return "%s(%s)" % (cn, ", ".join(avs))

    def seq_call(self, em, n, tag, p, name, args):
        f = "vf_seq_%s_" % tag
        if name in ("size",):
            return "%s->n" % em.paren(p) if re.fullmatch(r"&?[\w.>-]+", p) else "%ssize(%s)" % (f, p)
        if name == "empty":
            if re.fullmatch(r"&?[\w.>-]+", p):
                # direct field read, like size(): a call in a loop guard defeats dfcc's loop-contract instrumentation
                return "(%s->n == 0)" % em.paren(p)
            return "(%ssize(%s) == 0)" % (f, p)
        if name == "front":
            return "(*%sat(%s, 0))" % (f, p)
        if name == "back":
            return "(*%sback(%s))" % (f, p)
        if name in ("at",):
            return "(*%sat(%s, %s))" % (f, p, em.E(args[0]))
        if name == "capacity" and not args:
            return "%s->cap" % em.paren(p)  # the model never reallocates: capacity() is the fixed model capacity
        if name == "emplace_back" and len(args) != 1:
            # emplace_back(a0, .., ak) on a sequence of class objects: the constructor of the element class runs on the
            # new last slot (T__ctor is a unit or a callee); forwarded scalars / pointers are passed by value, class-type
            # arguments by address
            ect = em.tm.seq_insts.get(tag, "")
        if name == "emplace_back" and len(args) != 1 and ect.startswith("struct ") and \
                not ect.startswith("struct vf_") and not ect.endswith("*"):
            etag = ect[len("struct "):]
            pcs, avs = [], []
            for a in args:
                act = em.try_ctype(a)
                if act is None:
                    return None
                if is_scalar(act) or act.endswith("*"):
                    pcs.append(act)
                    avs.append(em.E(a))
                else:
                    pcs.append(act + "*")
                    avs.append(em.addr_of(a))
            cn = em.fn_cname(etag, "ctor", None)
            em.structs.setdefault(etag, {})
            em.note_proto(cn, "void", ["struct %s*" % etag] + pcs, "ctor %s (emplace_back)" % etag)
            em.callees.setdefault(cn, "%s::%s (emplace_back)" % (etag, etag))
            em.callflag = True
            return "%s(%s)" % (cn, ", ".join(["%semplace_slot(%s)" % (f, p)] + avs))
        if name in ("push_back", "emplace_back", "push_front", "emplace_front"):
            if len(args) == 2 and name.startswith("emplace") and tag.startswith("vf_pair_") and \
                    tag[len("vf_pair_"):] in em.tm.pair_insts:
                # emplace_back(a, b) on a sequence of std::pair: the pair is built in place from its two members
                base = "push_back" if "back" in name else "push_front"
                items = ["(%s)(%s)" % (fct, em.E(a)) if is_scalar(fct) and fct != "vf_str" else em.E(a)
                         for a, fct in zip(args, em.tm.pair_insts[tag[len("vf_pair_"):]])]
                return "%s%s(%s, ((struct %s){%s}))" % (f, base, p, tag, ", ".join(items))
            if len(args) != 1:
                return None
            base = "push_back" if "back" in name else "push_front"
            src = skip(args[0])
            while src.get("kind") in ("CXXConstructExpr", "CXXFunctionalCastExpr") and len(src.get("inner", [])) == 1:
                src = skip(src["inner"][0])
            if tag == "vf_fn" and src.get("kind") == "LambdaExpr":
                # closure stored in a container of std::function: its captures must outlive the block (heap copy)
                return "%s%s(%s, %s)" % (f, base, p, em.lift_lambda(src, heap=True))
            return "%s%s(%s, %s)" % (f, base, p, em.E(args[0]))
        if name in ("pop_front", "pop_back", "clear"):
            return "%s%s(%s)" % (f, name, p)
        if name in ("rbegin", "crbegin"):  # reverse iterators are represented by their base(): rbegin().base() == end()
            return "%send(%s)" % (f, p)
        if name in ("rend", "crend"):
            return "%sbegin(%s)" % (f, p)
        if name in ("begin", "cbegin"):
            return "%sbegin(%s)" % (f, p)
        if name in ("end", "cend"):
            return "%send(%s)" % (f, p)
        if name == "sort" and len(args) <= 1:
            # std::list::sort() / sort(std::greater<T>()) / sort(std::less<T>()): scalar elements only
            ect = em.tm.seq_insts.get(tag, "struct")
            if is_scalar(ect):
                order = "asc"
                if args:
                    ft = em.tm.resolve(strip_ref(em.ptype(args[0])))
                    if ft.kind == "named" and ft.last in ("greater", "less") and (ft.name or "").startswith("std::"):
                        order = "desc" if ft.last == "greater" else "asc"
                    else:
                        return None
                self.need.add(("seq_sort", tag))
                return "%ssort_%s(%s)" % (f, order, p)
            return None
        if name == "unique" and not args:
            if is_scalar(em.tm.seq_insts.get(tag, "struct")):
                self.need.add(("seq_sort", tag))
                return "%sunique(%s)" % (f, p)
            return None
        if name == "data":
            return "%sbegin(%s)" % (f, p)
        if name == "erase":
            if len(args) == 1:
                return "%serase(%s, %s)" % (f, p, em.E(args[0]))
            return "%serase_range(%s, %s, %s)" % (f, p, em.E(args[0]), em.E(args[1]))
        if name == "insert" and len(args) == 2:
            return "%sinsert(%s, %s, %s)" % (f, p, em.E(args[0]), em.E(args[1]))
        if name == "insert" and len(args) == 3:  # insert(pos, first, last) from another modelled sequence
            r = self.range_args(em, args[1], args[2], "%s*" % em.tm.seq_insts.get(tag, "?"))
            if r is None:
                return None
            return "%sinsert_range%s(%s, %s, %s, %s)" % (f, "_rev" if r[0] else "", p, em.E(args[0]), r[1], r[2])
        if name == "resize":
            if len(args) == 1:
                return "%sresize(%s, %s)" % (f, p, em.E(args[0]))
            deep = em.tm.seq_insts.get(tag, "").startswith("struct vf_seq_")  # vector of vectors: each new slot owns a copy
            return "%sresize_fill%s(%s, %s, %s)" % (f, "_deep" if deep else "", p, em.E(args[0]), em.E(args[1]))
        if name == "assign" and len(args) == 2:
            return "%sassign_fill(%s, %s, %s)" % (f, p, em.E(args[0]), em.E(args[1]))
        if name in ("reserve", "shrink_to_fit"):
            return "((void)0)"
        if name == "remove":
            return "%sremove(%s, %s)" % (f, p, em.E(args[0]))
        if name == "swap":
            return "%sswap(%s, %s)" % (f, p, em.addr_of(args[0]))
        return None

    def ilist_call(self, em, n, tag, p, name, args):
        """boost::intrusive::list member functions on the vf_ilist model (elements are passed by reference)"""
        f = "vf_ilist_%s_" % tag
        if name == "size":
            return "%s->n" % em.paren(p) if re.fullmatch(r"&?[\w.>-]+", p) else "%ssize(%s)" % (f, p)
        if name in ("empty", "clear", "pop_front", "pop_back") and not args:
            return "%s%s(%s)" % (f, name, p)
        if name in ("begin", "cbegin", "end", "cend") and not args:
            return "%s%s(%s)" % (f, name.lstrip("c"), p)
        if name in ("front", "back") and not args:
            return "(*%s%s(%s))" % (f, name, p)
        if name in ("push_back", "push_front", "iterator_to") and len(args) == 1:
            return "%s%s(%s, %s)" % (f, name, p, em.addr_of(args[0]))
        if name == "erase" and len(args) == 1:
            return "%serase(%s, %s)" % (f, p, em.E(args[0]))
        return None

    def is_ilist_iter(self, em, a):
        try:
            t = em.tm.resolve(strip_ref(em.ptype(a)))
        except Unsupported:
            return False
        return t.kind == "named" and t.last == "list_iterator" and (t.name or "").startswith("boost::intrusive::")

    def map_call(self, em, n, tag, p, name, args):
        f = "vf_map_%s_" % tag
        if name in ("size", "empty", "clear"):
            return "%s%s(%s)" % (f, name, p)
        if name == "erase" and len(args) == 1 and self.mapped(em, args[0]) == "struct vf_pair_%s*" % tag:
            return "%serase_it(%s, %s)" % (f, p, em.E(args[0]))  # erase(iterator): the entry the iterator designates
        if name in ("find", "count", "contains", "erase", "at") and len(args) == 1:
            r = "%s%s(%s, %s)" % (f, name, p, em.E(args[0]))
            return "(*%s)" % r if name == "at" else r
        if name in ("end", "begin", "cend", "cbegin"):
            return "%s%s(%s)" % (f, name.lstrip("c"), p)
        if name == "insert" and len(args) == 1 and self.mapped(em, args[0]) == "struct vf_pair_" + tag:
            return "%sinsert_pair(%s, %s)" % (f, p, em.E(args[0]))
        if name in ("insert", "emplace", "try_emplace", "insert_or_assign") and len(args) == 2:
            return "%s%s(%s, %s, %s)" % (f, "insert" if name != "insert_or_assign" else "set", p, em.E(args[0]),
                                         em.E(args[1]))
        return None

    def set_call(self, em, n, tag, p, name, args):
        f = "vf_set_%s_" % tag
        if name in ("size", "empty", "clear"):
            return "%s%s(%s)" % (f, name, p)
        if name == "insert" and len(args) == 1 and skip(args[0]).get("kind") == "CXXStdInitializerListExpr":
            # s.insert({e0, e1, ...}): one insert per item of the braced list, in order
            lst = skip(args[0])
            while lst.get("kind") != "InitListExpr" and lst.get("inner"):
                lst = lst["inner"][0]
            if lst.get("kind") != "InitListExpr" or not lst.get("inner"):
                raise Unsupported("set insert of an initializer list that is not a non-empty braced list")
            return "(%s)" % ", ".join("%sinsert(%s, %s)" % (f, p, em.E(c)) for c in lst["inner"])
        if name in ("find", "count", "contains", "erase", "insert", "emplace") and len(args) == 1:
            nm = "insert" if name == "emplace" else name
            return "%s%s(%s, %s)" % (f, nm, p, em.E(args[0]))
        if name in ("end", "begin", "cend", "cbegin"):
            return "%s%s(%s)" % (f, name.lstrip("c"), p)
        if name == "insert" and len(args) == 2:  # insert(first, last) from a modelled sequence
            r = self.range_args(em, args[0], args[1], "%s*" % em.tm.set_insts.get(tag, "?"))
            if r is not None and not r[0]:
                return "%sinsert_range(%s, %s, %s)" % (f, p, r[1], r[2])
        return None

    # ------------------------------------------------------------------ free functions
    def free_call(self, em, n, name, args, fnt):
        if name == "yield" and not args and fnt and fnt.replace(" ", "") == "void()noexcept":
            # std::this_thread::yield(): an interference point of a thread (the spec gives the callee vf_thread_yield a
            # contract saying what the other threads may write meanwhile); it cannot throw: no exception check follows
            em.note_proto("vf_thread_yield", "void", [], "std::this_thread::yield")
            em.callees.setdefault("vf_thread_yield", "std::this_thread::yield (interference point, noexcept)")
            return "vf_thread_yield()"
        if name in ("min", "max") and not args and fnt and "mersenne_twister_engine<" in fnt:
            m = re.search(r"mersenne_twister_engine<[^,]+,\s*(\d+)", fnt)
            w = int(m.group(1))
            return "%dUL" % ((1 << w) - 1 if name == "max" else 0)
        if name in ("min", "max") and len(args) == 2:
            ct = em.ctype(n)
            if is_scalar(ct):
                self.minmax.add((name, ct))
                return "vf_%s_%s(%s, %s)" % (name, ident(ct), em.E(args[0]), em.E(args[1]))
            if ct.startswith("struct ") and not ct.startswith("struct vf_") and not ct.endswith("*"):
                # class type ordered by its own operator<=> (a unit or a callee): std::max(a,b) = (a < b) ? b : a and
                # std::min(a,b) = (b < a) ? b : a, with x < y rewritten by the compiler to (x <=> y) < 0
                tag = ct[len("struct "):]
                cmpf = em.fn_cname(tag, "operator<=>", None)
                em.note_proto(cmpf, "int", ["struct %s*" % tag, "struct %s*" % tag],
                              "%s::operator<=> (used by std::%s)" % (tag, name))
                em.callees.setdefault(cmpf, "%s::operator<=>" % tag)
                em.callflag = True
                hn = "vf_%s_%s" % (name, tag)
                test = "%s(a, b) < 0" % cmpf if name == "max" else "%s(b, a) < 0" % cmpf
                text = "static inline %s* %s(%s* a, %s* b) { return (%s) ? b : a; }" % (ct, hn, ct, ct, test)
                if text not in em.lifted:
                    em.lifted.append(text)
                return "(*%s(%s, %s))" % (hn, em.addr_of(args[0]), em.addr_of(args[1]))
        if name == "transform" and len(args) in (4, 5) and skip(args[-1]).get("kind") == "LambdaExpr":
            # std::transform(first1, last1, [first2,] out, <captureless lambda>) over pointer iterators: an index loop
            # calling the lifted lambda; the loop is loop number k of the calling unit (macro VF_LOOP_<unit>_<k>)
            cts = [self.mapped(em, a) for a in args[:-1]]
            if all(c and c.endswith("*") for c in cts):
                m = em.loop_macro()
                fn = em.lift_lambda_fn(skip(args[-1]))
                hn = "vf_transform_" + fn
                two = len(args) == 5
                ps = ["%s b1" % cts[0], "%s e1" % cts[1]] + (["%s b2" % cts[2]] if two else []) + ["%s out" % cts[-1]]
                call = "%s(b1[i], b2[i])" % fn if two else "%s(b1[i])" % fn
                em.lifted.append("#ifndef %s\n#define %s\n#endif\nstatic inline %s %s(%s)\n{\n  size_t n = (size_t)(e1 - b1);\n"
                                 "  for (size_t i = 0; i < n; i++)\n    %s\n  { out[i] = %s; }\n  return out + n;\n}\n"
                                 % (m, m, cts[-1], hn, ", ".join(ps), m, call))
                return "%s(%s)" % (hn, ", ".join(em.E(a) for a in args[:-1]))
        if name == "make_exception_ptr" and len(args) == 1:
            # std::make_exception_ptr(E(...)): only the kind of the exception survives (payload dropped, DESIGN 3.2)
            t = peel(em.tm, em.ptype(args[0]))
            if t.kind != "named":
                return None
            cn = "VF_EXC_" + ident(t.last)
            em.exc_kinds.add(cn)
            return "((vf_excptr)%s)" % cn
        if name == "clamp" and len(args) == 3:
            ct = em.ctype(n)
            self.minmax.add(("clamp", ct))
            return "vf_clamp_%s(%s, %s, %s)" % (ident(ct), em.E(args[0]), em.E(args[1]), em.E(args[2]))
        if name == "swap" and len(args) == 2:
            ct = em.ctype(args[0])
            self.minmax.add(("swap", ct))
            return "vf_swap_%s(%s, %s)" % (ident(ct), em.addr_of(args[0]), em.addr_of(args[1]))
        if name in ("move", "forward", "addressof", "as_const", "__addressof") and len(args) == 1:
            if name in ("addressof", "__addressof"):
                return em.addr_of(args[0])
            return em.E(args[0])
        if name in ("make_unique", "make_shared") and len(args) == 1:
            # smart pointer to a scalar / string value: same as `new T(v)` (smart pointers are plain pointers)
            ct = self.mapped(em, n)
            if ct and ct.endswith("*") and not ct.startswith("struct ") and self.mapped(em, args[0]) == ct[:-1]:
                cn = "vf_new_" + em.tm.tag(ct[:-1])
                em.lifted_new.add((cn, ct[:-1]))
                return "%s(%s)" % (cn, em.E(args[0]))
        if name in ("move", "copy") and len(args) == 3:
            # std::move/std::copy(first, last, std::back_inserter(seq)): append the range to the modelled sequence
            core = skip(args[2])
            while core.get("kind") in ("CXXConstructExpr", "MaterializeTemporaryExpr") and len(core.get("inner", [])) == 1:
                core = skip(core["inner"][0])
            callee = skip(core["inner"][0]) if core.get("kind") == "CallExpr" and core.get("inner") else {}
            if callee.get("kind") == "DeclRefExpr" and callee.get("referencedDecl", {}).get("name") == "back_inserter":
                dst = core["inner"][1]
                dct = self.mapped(em, dst)
                if dct and dct.startswith("struct vf_seq_"):
                    tag = dct[len("struct vf_seq_"):]
                    r = self.range_args(em, args[0], args[1], "%s*" % em.tm.seq_insts.get(tag, "?"))
                    if r is not None:
                        d = em.addr_of(dst)
                        return "vf_seq_%s_insert_range%s(%s, vf_seq_%s_end(%s), %s, %s)" % (
                            tag, "_rev" if r[0] else "", d, tag, d, r[1], r[2])
        if name in ("find", "count", "remove") and len(args) == 3:
            ct = self.mapped(em, args[0])
            if ct and ct.endswith("*"):
                tag = em.tm.tag(ct[:-1])
                if tag in em.tm.seq_insts or True:
                    em.tm.seq_insts.setdefault(tag, ct[:-1])
                    return "vf_seq_%s_%s_in(%s, %s, %s)" % (tag, name, em.E(args[0]), em.E(args[1]), em.E(args[2]))
        if name in ("min_element", "max_element") and len(args) == 2:
            ct = self.mapped(em, args[0])
            if ct and ct.endswith("*") and is_scalar(ct[:-1]):
                tag = em.tm.tag(ct[:-1])
                em.tm.seq_insts.setdefault(tag, ct[:-1])
                return "vf_seq_%s_%s_in(%s, %s)" % (tag, name, em.E(args[0]), em.E(args[1]))
        if name == "sort" and len(args) in (2, 3):
            # std::sort over a modelled range of scalars, natural order or std::greater<> / std::less<>
            ct = self.mapped(em, args[0])
            desc = 0
            if len(args) == 3:
                cmp_t = qt(args[2]) or ""
                if re.match(r"(const )?std::greater<", cmp_t):
                    desc = 1
                elif not re.match(r"(const )?std::less<", cmp_t):
                    return None
            if ct and ct.endswith("*") and is_scalar(ct[:-1]):
                tag = em.tm.tag(ct[:-1])
                em.tm.seq_insts.setdefault(tag, ct[:-1])
                return "vf_seq_%s_sort_in(%s, %s, %d)" % (tag, em.E(args[0]), em.E(args[1]), desc)
        if name == "make_pair" and len(args) == 2:
            ct = self.mapped(em, n)
            if ct and ct.startswith("struct vf_pair_"):
                return "((%s){%s, %s})" % (ct, em.E(args[0]), em.E(args[1]))
        if name == "find" and len(args) == 2:
            # range form (boost::range::find / std::ranges::find) over a sequence container: find(begin, end, v)
            ct = self.mapped(em, args[0])
            if ct and ct.startswith("struct vf_seq_") and not ct.endswith("*"):
                tag = ct[len("struct vf_seq_"):]
                p = em.addr_of(args[0])
                return "vf_seq_%s_find_in(vf_seq_%s_begin(%s), vf_seq_%s_end(%s), %s)" % (tag, tag, p, tag, p,
                                                                                        em.E(args[1]))
        if name in ("find_if", "find_if_not", "any_of", "all_of", "none_of") and len(args) == 3 and \
                em.cfg.get("pred_inline"):
            # units.json "pred_inline": true -> single-return lambdas are inlined into an index loop of the unit itself
            # (loop contract written in the unit's scope); default is the per-call-site model function of algo_call
            r = self.pred_loop(em, n, name, args)
            if r is not None:
                return r
        if name in em.ALGO_BODIES and len(args) == 3:
            r = em.algo_call(n, name, args)
            if r is not None:
                return r
        if name in ("max", "min", "lowest", "epsilon", "infinity") and not args and fnt:
            # static constants of std::numeric_limits<T> (clang prints no class for the callee: recognised by the
            # zero-argument noexcept signature returning a builtin arithmetic type)
            m = re.fullmatch(r"(int|long|unsigned int|unsigned long|double|float) \(\) noexcept", fnt)
            table = {("int", "max"): "INT_MAX", ("int", "min"): "INT_MIN", ("int", "lowest"): "INT_MIN",
                     ("long", "max"): "LONG_MAX", ("long", "min"): "LONG_MIN", ("long", "lowest"): "LONG_MIN",
                     ("unsigned int", "max"): "UINT_MAX", ("unsigned int", "min"): "0U",
                     ("unsigned long", "max"): "ULONG_MAX", ("unsigned long", "min"): "0UL",
                     ("double", "max"): "DBL_MAX", ("double", "min"): "DBL_MIN", ("double", "lowest"): "(-DBL_MAX)",
                     ("double", "epsilon"): "DBL_EPSILON", ("double", "infinity"): "((double)INFINITY)",
                     ("float", "max"): "FLT_MAX", ("float", "min"): "FLT_MIN", ("float", "lowest"): "(-FLT_MAX)",
                     ("float", "epsilon"): "FLT_EPSILON", ("float", "infinity"): "INFINITY"}
            if m and (m.group(1), name) in table:
                return table[(m.group(1), name)]
        if name == "intrusive_erase" and len(args) == 2:
            # simgrid::xbt::intrusive_erase(list, elem) is list.erase(list.iterator_to(elem)) (include/xbt/utility.hpp)
            ct = self.mapped(em, args[0])
            if ct and ct.startswith("struct vf_ilist_"):
                return "%s_erase_elem(%s, %s)" % (ct[len("struct "):], em.addr_of(args[0]), em.addr_of(args[1]))
        if name in ("next", "prev") and len(args) in (1, 2):
            ct = self.mapped(em, args[0])
            if ct and ct.endswith("*"):
                step = "1" if len(args) == 1 or args[1].get("kind") == "CXXDefaultArgExpr" else em.paren(em.E(args[1]))
                return "(%s %s %s)" % (em.paren(em.E(args[0])), "+" if name == "next" else "-", step)
        if name in ("begin", "end", "cbegin", "cend", "size", "empty") and len(args) == 1:
            ct = self.mapped(em, args[0])
            if ct and ct.startswith("struct vf_ilist_"):
                return self.ilist_call(em, n, ct[len("struct vf_ilist_"):], em.addr_of(args[0]), name, [])
            if ct and ct.startswith("struct vf_seq_"):
                return self.seq_call(em, n, ct[len("struct vf_seq_"):], em.addr_of(args[0]), name, [])
        if name in ("get_pointer",) and len(args) == 1:
            return em.E(args[0])
        if name in MATH1:
            ct = self.mapped(em, n)
            a = [em.E(x) for x in args]
            cname = name
            if name == "abs":
                act = self.mapped(em, args[0])
                cname = {"double": "fabs", "float": "fabsf", "long": "labs", "int": "abs", "long long": "llabs",
                         "long double": "fabsl"}.get(act, None)
                if cname is None:
                    return None
            if name in ("isfinite", "isnan", "isinf") and len(args) == 1:
                # classification macros of <math.h> expand to __builtin_* that goto-instrument --dfcc cannot
                # instrument: use CBMC's primitives (same IEEE semantics)
                suf = {"double": "d", "float": "f", "long double": "ld"}.get(self.mapped(em, args[0]))
                if suf is not None:
                    return "__CPROVER_%s%s(%s)" % (name, suf, a[0])
            return "%s(%s)" % (cname, ", ".join(a))
        if name in CLIB:
            return "%s(%s)" % (name, ", ".join(em.E(x) for x in args))
        if name in ("intrusive_ptr_add_ref", "intrusive_ptr_release"):
            em.dropped.append(name)
            return "((void)0)"
        if name == "__builtin_expect":
            return em.E(args[0])
        if name == "__builtin_unreachable":
            return "VF_ABORT()"
        return None

    # ------------------------------------------------------------------ constructors
    def construct(self, em, n):
        ct = self.mapped(em, n)
        if ct is None:
            return None
        args = [a for a in n.get("inner", [])]
        while args and args[-1].get("kind") == "CXXDefaultArgExpr":
            args.pop()  # defaulted trailing parameters (allocators, comparators) carry no modelled meaning
        if ct == "vf_str":
            if not args:
                return "VF_STR_EMPTY"
            a0 = args[0]
            act = self.mapped(em, a0)
            if act == "vf_str":
                return em.E(a0)
            core = skip(a0)
            if core.get("kind") == "StringLiteral":
                return "VF_STRLIT(%s)" % core["value"]
            return self.str_fn(em, "vf_str_from_cstr", "vf_str", ["char*"], [em.E(a0)])
        if ct == "vf_excptr":
            # std::exception_ptr(): null; exception_ptr(nullptr): null; copy: the same kind
            if not args or skip(args[0]).get("kind") in ("CXXNullPtrLiteralExpr", "GNUNullExpr"):
                return "((vf_excptr)0)"
            if self.mapped(em, args[0]) == ct:
                return em.E(args[0])
            return None
        if is_scalar(ct):
            if not args:
                return "((%s)0)" % ct
            act = self.mapped(em, args[0])
            if act and act != ct and act.startswith("struct ") and ct.startswith("struct ") and \
                    act.endswith("*") and ct.endswith("*") and not act.endswith("**") and not ct.endswith("**"):
                # converting constructor smart_ptr<Derived> -> smart_ptr<Base>: pointer cast, valid when Base is
                # reached through first bases only (checked at the end of the extraction, see cxx2c.translate)
                em.upcasts.add((act[7:-1], ct[7:-1]))
                return "((%s)%s)" % (ct, em.paren(em.E(args[0])))
            return em.E(args[0])
        if ct.startswith("struct vf_seq_"):
            tag = ct[len("struct vf_seq_"):]
            while args and args[-1].get("kind") == "CXXDefaultArgExpr":
                args = args[:-1]  # defaulted allocator argument
            if not args:
                return "vf_seq_%s_make()" % tag
            if len(args) == 1:
                act = self.mapped(em, args[0])
                if act == ct:
                    if args[0].get("valueCategory") == "lvalue":
                        return "vf_seq_%s_copy(%s)" % (tag, em.addr_of(args[0]))
                    return em.E(args[0])
                if act and is_scalar(act) and not act.endswith("*"):
                    return "vf_seq_%s_make_n(%s)" % (tag, em.E(args[0]))
            if len(args) == 2:
                a0 = self.mapped(em, args[0])
                if a0 and a0.endswith("*") and self.mapped(em, args[1]) == a0:
                    return "vf_seq_%s_make_range(%s, %s)" % (tag, em.E(args[0]), em.E(args[1]))
                if a0 and is_scalar(a0):
                    return "vf_seq_%s_make_fill(%s, %s)" % (tag, em.E(args[0]), em.E(args[1]))
            return None
        if ct.startswith("struct vf_pair_"):
            if len(args) == 2:
                items = []
                for a, fct in zip(args, em.tm.pair_insts[ct[len("struct vf_pair_"):]]):
                    e = em.E(a)
                    if fct == "vf_str" and self.mapped(em, a) in ("char*", "const char*"):
                        # converting pair constructor: std::string built from a C string inside std::pair
                        e = self.str_fn(em, "vf_str_from_cstr", "vf_str", ["char*"], [e])
                    items.append(e)
                return "((%s){%s})" % (ct, ", ".join(items))
            if len(args) == 1 and self.mapped(em, args[0]) == ct:
                return em.E(args[0])
            if not args:
                return "((%s){0})" % ct
            return None
        if ct.startswith("struct vf_opt_"):
            if not args:
                return "((%s){0})" % ct
            if self.mapped(em, args[0]) == ct:
                return em.E(args[0])
            if "nullopt_t" in (qt(args[0]) or "") or re.search(r"\bnone_t\b", qt(args[0]) or ""):
                return "((%s){0})" % ct  # optional(std::nullopt / boost::none), possibly through a copy of the tag object
            if skip(args[0]).get("kind") == "DeclRefExpr" and \
                    skip(args[0])["referencedDecl"].get("name") == "nullopt":
                return "((%s){0})" % ct
            return "((%s){1, %s})" % (ct, em.E(args[0]))
        if ct == "struct vf_ihook":
            if not args:
                return "((struct vf_ihook){0})"  # a default-constructed (safe-link) member hook is not linked
            return None
        if ct == "struct vf_lock":
            if len(args) == 1 and self.mapped(em, args[0]) == ct:
                return em.E(args[0])
            em.dropped.append("lock")
            return "((struct vf_lock){%d})" % (1 if args else 0)
        if ct == "struct vf_fn":
            if not args:
                return "((struct vf_fn){0})"
            if self.mapped(em, args[0]) == ct:
                return em.E(args[0])
            return self.to_vf_fn(em, args[0])
        if ct.startswith("struct vf_map_") or ct.startswith("struct vf_set_"):
            if not args:
                return "%s_make()" % ct[len("struct "):]
            if len(args) == 1 and self.mapped(em, args[0]) == ct:
                if args[0].get("valueCategory") == "lvalue" and ct.startswith("struct vf_set_"):
                    return "%s_copy(%s)" % (ct[len("struct "):], em.addr_of(args[0]))  # copy construction: own storage
                return em.E(args[0])
            return None
        # plain class: copy/move construction = struct copy when declared POD in the config
        if len(args) == 1 and self.mapped(em, args[0]) == ct and \
                (ct[7:] in em.cfg.get("pod_structs", [])):
            return em.E(args[0])
        return None

    def to_vf_fn(self, em, a):
        core = skip(a)
        if core.get("kind") == "LambdaExpr":
            return em.lift_lambda(core, heap=True)  # stored in a std::function: captures must outlive the block
        act = self.mapped(em, a)
        if act == "struct vf_fn":
            return em.E(a)  # closure variable
        if act == "vf_fnptr":
            return "((struct vf_fn){(vf_fnptr)%s, 0})" % em.E(a)
        return None

    def lambda_expr(self, em, n):
        return em.lift_lambda(n)

    def pred_loop(self, em, n, name, args):
        """std::find_if / find_if_not / any_of / all_of / none_of over [b, e) of a modelled sequence with a lambda whose
        body is a single `return expr;`: an index loop hoisted before the statement (it takes the next loop ordinal
        and a VF_LOOP_<cname>_<k> macro like every loop of the unit; index `__i<k>`, base `__fb<k>`, count `__fn<k>`),
        with the predicate inlined on the element `__fb<k>[__i<k>]` (captures are the enclosing variables themselves:
        the lambda is called before anything can change them)."""
        lam = skip(args[2])
        while lam.get("kind") == "CXXConstructExpr" and len(lam.get("inner", [])) == 1:
            lam = skip(lam["inner"][0])
        if lam.get("kind") != "LambdaExpr":
            return None
        ct = self.mapped(em, args[0])
        if not ct or not ct.endswith("*") or self.mapped(em, args[1]) != ct:
            return None
        rec = lam["inner"][0]
        meth = [m for m in rec.get("inner", []) if m.get("kind") == "CXXMethodDecl" and m.get("name") == "operator()"]
        body = lam["inner"][-1]
        if len(meth) != 1 or body.get("kind") != "CompoundStmt":
            return None
        params = [p for p in meth[0].get("inner", []) if p.get("kind") == "ParmVarDecl"]
        stmts = [s for s in body.get("inner", []) if s.get("kind") != "NullStmt"]
        if len(params) != 1 or len(stmts) != 1 or stmts[0].get("kind") != "ReturnStmt" or not stmts[0].get("inner"):
            raise Unsupported("std::%s with a lambda that is not a single return statement" % name)
        b, e = em.E(args[0]), em.E(args[1])
        k = em.unit.loops
        m = em.loop_macro()
        fb, fn, fi = "__fb%d" % k, "__fn%d" % k, "__i%d" % k
        em.local_names[params[0]["id"]] = "(%s[%s])" % (fb, fi)
        # the predicate is evaluated in the loop guard (conditionally, once per element): no hoisting of nested calls
        em.lazy_depth = getattr(em, "lazy_depth", 0) + 1
        try:
            pre, p = em.with_pre(lambda: em.E(stmts[0]["inner"][0]))
        finally:
            em.lazy_depth -= 1
        if pre:
            raise Unsupported("temporaries in the predicate of std::%s" % name)
        stop = p if name in ("find_if", "any_of", "none_of") else "!(%s)" % p
        em.pre.append("%s %s = %s;" % (ct, fb, b))
        em.pre.append("size_t %s = (size_t)(%s - %s);" % (fn, em.paren(e), fb))
        em.pre.append("size_t %s = 0;" % fi)
        em.pre.append("while (%s < %s && !(%s))" % (fi, fn, stop))
        em.pre.append("  " + m)
        em.pre.append("{ %s++; }" % fi)
        if name in ("find_if", "find_if_not"):
            return "(%s + %s)" % (fb, fi)
        if name == "any_of":
            return "(%s < %s)" % (fi, fn)
        return "(%s == %s)" % (fi, fn)

    # ------------------------------------------------------------------ range-for
    def for_range(self, em, n, ind):
        inner = n["inner"]
        if len(inner) != 8:
            raise Unsupported("unexpected range-for layout")
        init, rng, beg, end, cond, inc, var, body = inner
        if init:
            raise Unsupported("range-for with init statement")
        rvar = rng["inner"][0]
        rinit = rvar["inner"][0]
        rct = em.tm.c(strip_ref(em.ptype(rvar)))
        loopvar = var["inner"][0]
        k = em.unit.loops  # ordinal of this loop
        out = [ind + "{"]
        i2 = ind + "  "
        lv_t = parse(qt(loopvar))
        il = skip(rinit)
        if il.get("kind") == "CXXStdInitializerListExpr" and loopvar.get("kind") == "VarDecl":
            # for (T x : {e0, e1, ...}): a local constant array and an index loop whose bound is the number of items
            lst = il
            while lst.get("kind") != "InitListExpr" and lst.get("inner"):
                lst = lst["inner"][0]
            if lst.get("kind") != "InitListExpr":
                raise Unsupported("range-for over an initializer list that is not a braced list")
            items = [em.E(c) for c in lst.get("inner", [])]
            ect = em.tm.c(strip_ref(lv_t))
            aname, iname = "__a%d" % k, "__i%d" % k
            out.append("%s%s %s[%d] = {%s};" % (i2, ect, aname, len(items), ", ".join(items)))
            m = em.loop_macro()
            out.append("%sfor (size_t %s = 0; %s < %d; %s++)" % (i2, iname, iname, len(items), iname))
            out.append(i2 + "  " + m)
            out.append(i2 + "{")
            if lv_t.kind in ("ref", "rref"):
                name = em.decl_local(loopvar, True)
                out.append("%s  %s* %s = &%s[%s];" % (i2, ect, name, aname, iname))
            else:
                name = em.decl_local(loopvar, False)
                out.append("%s  %s %s = %s[%s];" % (i2, ect, name, aname, iname))
            out += em.body(body, i2 + "  ")
            out.append(i2 + "}")
            out.append(ind + "}")
            return out
        if rct.startswith("struct vf_seq_"):
            tag = rct[len("struct vf_seq_"):]
            ect = em.tm.seq_insts[tag]
            rname = "__r%d" % k
            iname = "__i%d" % k
            if rinit.get("valueCategory") == "prvalue" or skip(rinit).get("valueCategory") == "prvalue":
                pre, e = em.with_pre(lambda: em.E(rinit))
                out += [i2 + p for p in pre]
                out.append("%s%s %s_v = %s;" % (i2, rct, rname, e))
                out += em.exc_check(rinit, i2)
                out.append("%s%s* %s = &%s_v;" % (i2, rct, rname, rname))
            else:
                pre, e = em.with_pre(lambda: em.addr_of(rinit))
                out += [i2 + p for p in pre]
                out.append("%s%s* %s = %s;" % (i2, rct, rname, e))
                out += em.exc_check(rinit, i2)
            m = em.loop_macro()
            out.append("%sfor (size_t %s = 0; %s < %s->n; %s++)" % (i2, iname, iname, rname, iname))
            out.append(i2 + "  " + m)
            out.append(i2 + "{")
            elem = "%s->d[%s->h + %s]" % (rname, rname, iname)
            if loopvar.get("kind") == "DecompositionDecl":
                # for (auto [a,b] : seq_of_pairs)
                isref = lv_t.kind in ("ref", "rref")
                em.unit.tmp += 1
                tmp = "__d%d" % em.unit.tmp
                out.append("%s  %s* %s = &%s;" % (i2, ect, tmp, elem))
                if not isref:
                    out.append("%s  %s %s_v = *%s; %s = &%s_v;" % (i2, ect, tmp, tmp, tmp, tmp))
                binds = [b for b in loopvar.get("inner", []) if b.get("kind") == "BindingDecl"]
                for idx, b in enumerate(binds):
                    em.local_names[b["id"]] = "%s->%s" % (tmp, ["first", "second"][idx])
                    em.locals.add(b["id"])
            elif lv_t.kind in ("ref", "rref"):
                name = em.decl_local(loopvar, True)
                out.append("%s  %s* %s = &%s;" % (i2, ect, name, elem))
            else:
                name = em.decl_local(loopvar, False)
                lct = em.tm.c(lv_t)
                out.append("%s  %s %s = %s;" % (i2, lct, name, elem))
            out += em.body(body, i2 + "  ")
            out.append(i2 + "}")
            out.append(ind + "}")
            return out
        if rct.startswith("struct vf_ilist_"):
            # boost::intrusive::list: index loop over the array of element pointers (the body must not relink
            # elements of the list it iterates over, as in C++)
            tag = rct[len("struct vf_ilist_"):]
            ect = em.tm.ilist_insts[tag][0]
            rname = "__r%d" % k
            iname = "__i%d" % k
            pre, e = em.with_pre(lambda: em.addr_of(rinit))
            out += [i2 + p for p in pre]
            out.append("%s%s* %s = %s;" % (i2, rct, rname, e))
            out += em.exc_check(rinit, i2)
            m = em.loop_macro()
            out.append("%sfor (size_t %s = 0; %s < %s->n; %s++)" % (i2, iname, iname, rname, iname))
            out.append(i2 + "  " + m)
            out.append(i2 + "{")
            if lv_t.kind not in ("ref", "rref"):
                raise Unsupported("range-for by value over an intrusive list")
            name = em.decl_local(loopvar, True)
            out.append("%s  %s* %s = %s->d[%s];" % (i2, ect, name, rname, iname))
            out += em.body(body, i2 + "  ")
            out.append(i2 + "}")
            out.append(ind + "}")
            return out
        if rct.startswith("struct vf_set_") or rct.startswith("struct vf_map_"):
            kind = "set" if rct.startswith("struct vf_set_") else "map"
            tag = rct[len("struct vf_%s_" % kind):]
            rname = "__r%d" % k
            iname = "__i%d" % k
            pre, e = em.with_pre(lambda: em.addr_of(rinit))
            out += [i2 + p for p in pre]
            out.append("%s%s* %s = %s;" % (i2, rct, rname, e))
            m = em.loop_macro()
            out.append("%sfor (size_t %s = 0; %s < %s->n; %s++)" % (i2, iname, iname, rname, iname))
            out.append(i2 + "  " + m)
            out.append(i2 + "{")
            if kind == "set":
                elem = "%s->k[%s]" % (rname, iname)
                ect = em.tm.set_insts[tag]
            else:
                elem = "%s->e[%s]" % (rname, iname)
                a, b = em.tm.map_insts[tag]
                ect = "struct vf_pair_%s__%s" % (em.tm.tag(a), em.tm.tag(b))
                em.tm.pair_insts.setdefault("%s__%s" % (em.tm.tag(a), em.tm.tag(b)), (a, b))
            if loopvar.get("kind") == "DecompositionDecl":
                em.unit.tmp += 1
                tmp = "__d%d" % em.unit.tmp
                out.append("%s  %s* %s = &%s;" % (i2, ect, tmp, elem))
                binds = [b for b in loopvar.get("inner", []) if b.get("kind") == "BindingDecl"]
                for idx, b in enumerate(binds):
                    em.local_names[b["id"]] = "%s->%s" % (tmp, ["first", "second"][idx])
                    em.locals.add(b["id"])
            elif lv_t.kind in ("ref", "rref"):
                name = em.decl_local(loopvar, True)
                out.append("%s  %s* %s = &%s;" % (i2, ect, name, elem))
            else:
                name = em.decl_local(loopvar, False)
                out.append("%s  %s %s = %s;" % (i2, ect, name, elem))
            out += em.body(body, i2 + "  ")
            out.append(i2 + "}")
            out.append(ind + "}")
            return out
        # C array
        rt = strip_ref(em.ptype(rvar))
        if rt.kind == "array":
            ect = em.tm.c(rt.to)
            iname = "__i%d" % k
            arr = em.E(rinit)
            m = em.loop_macro()
            out.append("%sfor (size_t %s = 0; %s < %s; %s++)" % (i2, iname, iname, rt.n, iname))
            out.append(i2 + "  " + m)
            out.append(i2 + "{")
            elem = "%s[%s]" % (em.paren(arr), iname)
            if lv_t.kind in ("ref", "rref"):
                name = em.decl_local(loopvar, True)
                out.append("%s  %s* %s = &%s;" % (i2, ect, name, elem))
            else:
                name = em.decl_local(loopvar, False)
                out.append("%s  %s %s = %s;" % (i2, em.tm.c(lv_t), name, elem))
            out += em.body(body, i2 + "  ")
            out.append(i2 + "}")
            out.append(ind + "}")
            return out
        return None
