#!/usr/bin/env python3
"""cxx2c: mechanical extraction of real SimGrid C++ functions into C for CBMC, from clang's JSON AST of the working tree.

usage: cxx2c.py <units.json> <outdir>
exit 0 ok; exit 2 extraction impossible (never a verdict)."""
import hashlib
import json
import os
import sys
from concurrent.futures import ThreadPoolExecutor

sys.path.insert(0, os.path.dirname(os.path.abspath(__file__)))
import astq
import models
from cxxtypes import TypeMap, Unsupported, parse, ident
from emit import Emitter, skip, qt
from libmap import LibMap

FUNC_KINDS = ("FunctionDecl", "CXXMethodDecl", "CXXConstructorDecl", "CXXDestructorDecl", "CXXConversionDecl")


class ExtractionError(Exception):
    pass


def has_body(n):
    return any(c.get("kind") == "CompoundStmt" for c in n.get("inner", []))


def find_defs(objs, last, sig=None, targs=None, record=None):
    """function definitions named `last` among the top-level nodes (and template instantiations inside them);
    targs: required template arguments of the enclosing class template specialization, e.g. 'int' or 'int,double';
    record: required name of the innermost enclosing class (unit key "record": tells apart member functions of the same
    name in several nested classes of one class template, e.g. Parmap<T>::PosixSynchro / BusyWaitSynchro)"""
    found = []

    def visit(n, depth, ctx, rec=None):
        k = n.get("kind")
        if k in FUNC_KINDS and n.get("name") == last and has_body(n):
            if (sig is None or sig in n.get("type", {}).get("qualType", "")) and (targs is None or targs == ctx) and \
                    (record is None or record == rec):
                found.append(n)
        if k in ("CXXRecordDecl", "ClassTemplateSpecializationDecl"):
            rec = n.get("name")
        if k == "ClassTemplateSpecializationDecl":
            ctx = ",".join((c.get("type") or {}).get("qualType", c.get("value", "?")) for c in n.get("inner", [])
                           if isinstance(c, dict) and c.get("kind") == "TemplateArgument")
        if k in ("FunctionTemplateDecl", "ClassTemplateDecl", "CXXRecordDecl", "ClassTemplateSpecializationDecl",
                 "NamespaceDecl", "LinkageSpecDecl") and depth < 4:
            for c in n.get("inner", []):
                if isinstance(c, dict):
                    visit(c, depth + 1, ctx, rec)

    for o in objs:
        visit(o, 0, None)
    return found


def is_accessor(node):
    """inline accessor: body is one `return <expr without calls>;` or one `field = <expr without calls>;`"""
    body = [c for c in node.get("inner", []) if c.get("kind") == "CompoundStmt"]
    if not body or len(body[0].get("inner", [])) != 1:
        return False
    st = body[0]["inner"][0]

    def calls(n):
        k = n.get("kind")
        if k in ("CallExpr", "CXXNewExpr", "CXXThrowExpr", "LambdaExpr", "CXXConstructExpr") and \
                not (k == "CXXConstructExpr" and len(n.get("inner", [])) <= 1):
            return True
        if k == "CXXMemberCallExpr":
            me = n["inner"][0]
            while me.get("kind") in ("ImplicitCastExpr", "ParenExpr"):
                me = me["inner"][0]
            if me.get("name") not in ("get", "operator bool", "has_value", "value"):
                return True
        return any(calls(c) for c in n.get("inner", []) if isinstance(c, dict))

    if st.get("kind") == "ReturnStmt":
        return not calls(st)
    if st.get("kind") == "BinaryOperator" and st.get("opcode") == "=":
        return not calls(st)
    return False


def enum_values(objs, enum_last):
    for o in objs:
        stack = [o]
        while stack:
            n = stack.pop()
            if n.get("kind") == "EnumDecl" and n.get("name") == enum_last and n.get("inner"):
                vals, cur = {}, -1
                for c in n["inner"]:
                    if c.get("kind") != "EnumConstantDecl":
                        continue
                    v = None
                    for e in c.get("inner", []):
                        ce = e
                        while ce is not None and "value" not in ce and ce.get("inner"):
                            ce = ce["inner"][0]
                        if ce is not None and "value" in ce and ce.get("kind") in ("ConstantExpr", "IntegerLiteral"):
                            v = int(ce["value"])
                    cur = v if v is not None else cur + 1
                    vals[c["name"]] = cur
                return vals
            if n.get("kind") in ("NamespaceDecl", "CXXRecordDecl", "LinkageSpecDecl", "ClassTemplateDecl"):
                stack.extend(c for c in n.get("inner", []) if isinstance(c, dict))
    return None


def eval_constants(cfg, names, outdir):
    """values of compile-time constants of the real code, obtained from the real compiler: a generated program
    includes the real header and prints each constant (config const_globals: name -> {expr, include})."""
    import subprocess
    if not names:
        return {}
    repo = astq.REPO
    incs, prints = [], []
    for n in sorted(names):
        c = cfg["const_globals"][n]
        incs.append('#include "%s/%s"' % (repo, c["include"]))
        prints.append('  printf("%s %%lld\\n", (long long)(%s));' % (n, c["expr"]))
    src = os.path.join(outdir, "vf_consts.cpp")
    open(src, "w").write("\n".join(sorted(set(incs))) + "\n#include <cstdio>\nint main()\n{\n" + "\n".join(prints) +
                         "\n  return 0;\n}\n")
    flags = [f for f in astq.tu_flags(cfg["units"][0]["tu"]) if not f.startswith("-std=")]
    exe = os.path.join(outdir, "vf_consts")
    p = subprocess.run(["g++", "-std=gnu++20", "-w", "-fno-access-control"] + flags + [src, "-o", exe],
                       capture_output=True, text=True)
    if p.returncode != 0:
        raise ExtractionError("constant evaluation program does not compile: " + p.stderr[-800:])
    q = subprocess.run([exe], capture_output=True, text=True)
    if q.returncode != 0:
        raise ExtractionError("constant evaluation program failed")
    return {l.split()[0]: int(l.split()[1]) for l in q.stdout.strip().split("\n") if l.strip()}


def topo(defs):
    """defs: {tag: (text, deps)} -> ordered texts"""
    done, out, visiting = set(), [], set()

    def go(t):
        if t in done or t not in defs:
            return
        if t in visiting:
            raise ExtractionError("cyclic by-value struct dependency at " + t)
        visiting.add(t)
        for d in defs[t][1]:
            go(d)
        visiting.discard(t)
        done.add(t)
        out.append(defs[t][0])

    for t in defs:
        go(t)
    return out


def const_literal_expr(n):
    """initialiser made of literals, casts, parentheses and builtin operators only"""
    k = n.get("kind")
    if k in ("IntegerLiteral", "FloatingLiteral", "CXXBoolLiteralExpr", "CharacterLiteral"):
        return True
    if k in ("UnaryOperator", "BinaryOperator", "ParenExpr", "ImplicitCastExpr", "ConstantExpr", "CStyleCastExpr",
             "CXXStaticCastExpr", "CXXFunctionalCastExpr"):
        return all(const_literal_expr(c) for c in n.get("inner", []))
    return False


def translate(cfg, outdir):
    os.makedirs(outdir, exist_ok=True)
    tm = TypeMap(typedefs=cfg.get("typedefs"), class_alias=cfg.get("class_alias"), enums=cfg.get("enums"))
    tm.scalar_classes = cfg.get("scalar_classes", {})
    lib = LibMap()
    em = Emitter(tm, lib, cfg)
    em.loop_macros = []
    em.exc_kinds = set()
    em.lifted_new = set()
    units = cfg["units"]

    # optional per-unit key "filter": the substring handed to clang's -ast-dump-filter (default: the unit's name).
    # Units of one TU that share a filter (e.g. "xbt_dynar") are read from ONE clang run; the unit's definition is
    # still selected by its exact name below.
    keys = sorted(set((u["tu"], u.get("filter", u["name"])) for u in units))
    with ThreadPoolExecutor(max_workers=int(os.environ.get("VF_JOBS", "8"))) as ex:
        fetched = dict(zip(keys, ex.map(lambda k: astq.query(k[0], k[1]), keys)))
    asts = [fetched[(u["tu"], u.get("filter", u["name"]))] for u in units]
    texts, meta = [], []

    def emit_unit(u, objs, accessor_only=False):
        last = u["name"].split("::")[-1]
        defs = find_defs(objs, last, u.get("sig"), u.get("targs"), u.get("record"))
        if accessor_only:
            defs = [d for d in defs if is_accessor(d)]
            if len(defs) != 1:
                return False
        if not defs:
            raise ExtractionError("no definition found for %s in %s" % (u["name"], u["tu"]))
        if len(defs) > 1:
            idx = u.get("pick")
            if idx is None:
                raise ExtractionError("%d definitions match %s: add \"sig\" or \"pick\" (%s)" %
                                      (len(defs), u["name"], [d["type"]["qualType"] for d in defs]))
            defs = [defs[idx]]
        node = defs[0]
        cls = u.get("class")
        if cls is None and node["kind"] in ("CXXMethodDecl", "CXXConstructorDecl", "CXXDestructorDecl",
                                            "CXXConversionDecl"):
            parts = u["name"].split("::")
            cls = tm.struct_tag(parts[-2])
        static = node.get("storageClass") == "static" or any(
            o.get("kind") == "CXXMethodDecl" and o.get("storageClass") == "static" and o.get("name") == node.get("name") and
            o.get("mangledName") == node.get("mangledName") for o in objs)  # `static` is written on the in-class declaration only
        if not static and node.get("previousDecl"):
            # out-of-line definition of a static member function: `static` is only on the in-class declaration
            def decl_of(n, want, depth=0):
                if n.get("id") == want:
                    return n
                if depth < 6:
                    for c in n.get("inner", []):
                        if isinstance(c, dict) and c.get("kind", "").endswith("Decl"):
                            r = decl_of(c, want, depth + 1)
                            if r is not None:
                                return r
                return None
            for o in objs:
                prev = decl_of(o, node["previousDecl"])
                if prev is not None:
                    static = prev.get("storageClass") == "static"
                    break
        if node["kind"] == "CXXConstructorDecl":
            cname = u.get("cname") or em.fn_cname(cls, "ctor", node["type"]["qualType"])
        else:
            cname = u.get("cname") or em.fn_cname(cls if node["kind"] != "FunctionDecl" else None, last,
                                                  node["type"]["qualType"])
        for d in objs:
            em.learn_types(d)
        if node["kind"] == "CXXConstructorDecl":
            cq = "::".join(u["name"].split("::")[:-1])
            for o in astq.query(u["tu"], cq):
                if o.get("kind") == "CXXRecordDecl" and o.get("name") == cq.split("::")[-1] and o.get("inner"):
                    for f in o["inner"]:
                        if f.get("kind") == "FieldDecl" and f.get("hasInClassInitializer"):
                            ex = [x for x in f.get("inner", []) if x.get("kind") != "FullComment"]
                            if ex:
                                em.field_inits[(cls, f["name"])] = ex[-1]
        em.cur_tu = u["tu"]
        em.stop_at_call = u.get("stop_at_call")
        try:
            sig, text, unit = em.emit_function(node, cname, cls if node["kind"] != "FunctionDecl" else None, static)
        except Unsupported as e:
            raise Unsupported("%s [unit %s]" % (e, u["name"]))
        finally:
            em.stop_at_call = None
        em.unit_names.add(cname)
        rng = node.get("range", {})
        b = rng.get("begin", {})
        e = rng.get("end", {})
        line0 = b.get("line") or b.get("expansionLoc", {}).get("line") or node.get("loc", {}).get("line")
        texts.append((cname, text, unit))
        meta.append({"unit": u["name"], "cname": cname, "tu": u["tu"], "loops": unit.loops,
                     "ast_sha1": hashlib.sha1(json.dumps(node, sort_keys=True).encode()).hexdigest(),
                     "begin_offset": b.get("offset", b.get("expansionLoc", {}).get("offset")),
                     "end_offset": e.get("offset", e.get("expansionLoc", {}).get("offset")), "line": line0,
                     "auto_accessor": accessor_only})
        return True

    for u, objs in zip(units, asts):
        emit_unit(u, objs)
    # inline accessors (single `return field;` / `field = value;`) called by the units are extracted as units of
    # their own, recursively, from the same TU (DESIGN.md 3.2) — never hand-written
    if cfg.get("auto_accessors", True):
        tried = set()
        while True:
            todo = [(cn, d) for cn, d in em.callees.items()
                    if cn not in em.unit_names and cn not in tried and "__" in cn and "::" in d and
                    not cn.startswith("vf_") and not cn.endswith("__new") and "__ctor" not in cn and "__make" not in cn and
                    cn not in cfg.get("no_auto", [])]
            if not todo:
                break
            tus = []
            for t in [cfg.get("accessor_tu")] + [u["tu"] for u in units]:
                if t and t not in tus:
                    tus.append(t)

            def fetch2(x):
                last = x[1].split(" ")[0].split("::")[-1]
                for tu in tus:  # first TU in which the callee has an inline accessor definition
                    objs = astq.query(tu, x[1].split(" ")[0])
                    if [d for d in find_defs(objs, last) if is_accessor(d)]:
                        return tu, objs
                return tus[0], []

            with ThreadPoolExecutor(max_workers=int(os.environ.get("VF_JOBS", "8"))) as ex:
                res = list(ex.map(fetch2, todo))
            for (cn, d), (tu, objs) in zip(todo, res):
                tried.add(cn)
                qn = d.split(" ")[0]
                emit_unit({"name": qn, "tu": tu, "cname": cn, "class": cn.rsplit("__", 1)[0]}, objs, True)
    # compile-time constants: value = the initialiser found in the TU (literals and arithmetic on literals only)
    const_init = {}
    for cn, (name, tu) in sorted(em.const_globals.items()):
        for o in astq.query(tu, name):
            if o.get("kind") == "VarDecl" and o.get("name") == name and o.get("inner"):
                init = [x for x in o["inner"] if x.get("kind") != "FullComment"][-1]
                if const_literal_expr(init):
                    const_init[cn] = em.E(init)
    for lu in em.lifted_units:  # lifted lambdas / per-call-site algorithm models: may carry contracts like units
        meta.append({"unit": "%s of %s" % (lu["kind"], lu["of"]), "cname": lu["cname"], "tu": None, "loops": lu["loops"],
                     "lifted": True})
    # extra fields requested by the spec (ghost fields or fields used only by predicates)
    for tag, fields in cfg.get("extra_fields", {}).items():
        for f, ct in fields.items():
            em.field(tag, f, ct)
    for tag in cfg.get("extra_structs", []):
        em.structs.setdefault(tag, {})
    # boost::intrusive lists: the element class carries the member hook the list model flips
    for tag, (ect, hook) in list(tm.ilist_insts.items()):
        em.field(ect[len("struct "):], hook, "struct vf_ihook")
    for d, bs in cfg.get("extra_bases", {}).items():
        for b in bs:
            em.add_base(d, b)

    # ---- pointer conversions emitted as casts: the base must sit at offset 0 (chain of first bases)
    for d, b in sorted(em.upcasts):
        cur, seen = d, set()
        while cur != b and em.bases.get(cur) and cur not in seen:
            seen.add(cur)
            cur = em.bases[cur][0]
        if cur != b:
            raise ExtractionError("conversion %s* -> %s*: %s is not known as a first base of %s (add extra_bases)" %
                                  (d, b, b, d))

    # ---- enum constants
    enum_defs = []
    enum_cache = {}
    for cn, (et, name) in sorted(em.enum_consts.items()):
        elast = et.split("::")[-1]
        over = cfg.get("enum_values", {}).get(cn)
        if over is not None:
            enum_defs.append("#define %s (%d)" % (cn, over))
            continue
        if et not in enum_cache:  # keyed by the qualified enum type: two enums may share their last name
            vals = None
            for u in units:
                vals = enum_values(astq.query(u["tu"], et if "::" in et else elast), elast)
                if vals:
                    break
            enum_cache[et] = vals
        vals = enum_cache[et]
        if not vals or name not in vals:
            raise ExtractionError("cannot resolve enum constant %s::%s" % (et, name))
        enum_defs.append("#define %s (%d)" % (cn, vals[name]))
    # "enum_export": [qualified enum names]: every constant of these enums is defined, used by a unit or not (a spec
    # must not stop compiling because an edit of the source no longer mentions a constant)
    for et in cfg.get("enum_export", []):
        elast = et.split("::")[-1]
        vals = None
        for u in units:
            vals = enum_values(astq.query(u["tu"], et), elast)
            if vals:
                break
        if not vals:
            raise ExtractionError("cannot resolve exported enum %s" % et)
        for name, v in sorted(vals.items()):
            d = "#define %s__%s (%d)" % (cfg.get("enum_rename", {}).get(et, elast), name, v)
            if d not in enum_defs:
                enum_defs.append(d)

    # ---- implicit (compiler-generated) copy/move assignment `a = b` of a class emitted as a plain C struct: memberwise
    # copy == C struct assignment. Only when clang says every X::operator= it sees is implicit (never for user code).
    implicit_assign = []
    defaulted_assign = []
    for cn, d in sorted(em.callees.items()):
        if cn.endswith("__operator_assign") and cn not in em.unit_names and d.endswith("::operator=") and cn in em.protos:
            tag = cn[:-len("__operator_assign")]
            decls = []
            for t in sorted(set(u["tu"] for u in units)):
                decls = [o for o in astq.query(t, tag + "::operator=")
                         if o.get("kind") == "CXXMethodDecl" and o.get("name") == "operator="]
                if decls:
                    break
            if decls and all(o.get("isImplicit") for o in decls) and len(em.protos[cn][1]) == 2:
                implicit_assign.append((cn, tag))
                del em.callees[cn]
                del em.protos[cn]
            elif decls and all(o.get("isImplicit") or o.get("explicitlyDefaulted") == "default" for o in decls) and \
                    len(em.protos[cn][1]) == 2:
                # `operator=(..) = default`: memberwise too. A defaulted operator= has no body in clang's AST unless the TU
                # uses it, so it cannot be listed as a unit. Move assignment = struct assignment (like the extracted
                # defaulted move constructors); copy assignment deep-copies the container members (like the extracted
                # defaulted copy constructors); a by-value class member would need its own operator=: refused.
                kinds = getattr(em, "assign_kinds", {}).get(tag, set())
                fields = em.structs.get(tag, {})
                deep = [f for f, ct in fields.items() if ct.startswith(("struct vf_seq_", "struct vf_set_")) and not ct.endswith("*")]
                nested = [f for f, ct in fields.items() if ct.startswith("struct ") and not ct.endswith("*") and
                          f not in deep and not ct.startswith("struct vf_pair_") and not ct.startswith("struct vf_opt_")]
                if kinds and not nested and not em.bases.get(tag):
                    if "copy" in kinds and deep:
                        defaulted_assign.append((cn, tag, [(f, fields[f][len("struct "):]) for f in deep]))
                    else:
                        implicit_assign.append((cn, tag))
                    del em.callees[cn]
                    del em.protos[cn]

    # ---- header
    h = [models.COMMON]
    alltags = set(em.structs) | set(tm.used_structs)
    for tag in sorted(alltags):
        if not tag.startswith("vf_"):
            h.append("struct %s;" % tag)
    defs = {}
    for tag, text, deps in models.struct_defs(tm):
        defs[tag] = (text, deps)
    for tag, fields in em.structs.items():
        if tag.startswith("vf_"):
            continue
        lines, deps = [], []
        for b in em.bases.get(tag, []):
            lines.append("  struct %s __b_%s;" % (b, b))
            deps.append(b)
        for f, ct in fields.items():
            if " @[" in ct:
                base, n = ct.split(" @[")
                lines.append("  %s %s[%s;" % (base, f, n))
                ctb = base
            else:
                lines.append("  %s %s;" % (ct, f))
                ctb = ct
            if ctb.startswith("struct ") and not ctb.endswith("*"):
                deps.append(ctb[7:])
        if not lines:
            lines.append("  char __empty;")
        defs[tag] = ("struct %s {\n%s\n};\n" % (tag, "\n".join(lines)), deps)
    for tag in sorted(alltags):
        if tag not in defs and not tag.startswith("vf_"):
            defs[tag] = ("struct %s { char __opaque; };\n" % tag, [])
    h += topo(defs)
    h += enum_defs
    for an, (ect, cnt) in sorted(tm.carr_insts.items()):
        h.append("typedef %s %s[%s];" % (ect, an, cnt))
    for n, v in sorted(eval_constants(cfg, em.const_needed, outdir).items()):
        ct = em.const_types.get(n)
        lit = "((%s)%d)" % (ct, v) if ct and ct != "int" and not ct.startswith("struct") and "*" not in ct else "(%d)" % v
        h.append("#define VFC_%s %s /* %s, evaluated by g++ */" % (ident(n), lit, cfg["const_globals"][n]["expr"]))
    # "exception_kinds": [class names]: kinds that are always defined (a spec keeps compiling when an edit drops a throw)
    for k in cfg.get("exception_kinds", []):
        em.exc_kinds.add("VF_EXC_" + k)
    for i, k in enumerate(sorted(em.exc_kinds)):
        h.append("#define %s (%d)" % (k, 2 + i))
    h.append(models.gen_funcs(tm, lib))
    for cn, et in sorted(em.lifted_new):
        h.append("static inline %s* %s(%s v) { %s* p = (%s*)malloc(sizeof(%s)); __CPROVER_assume(p != 0); *p = v; return p; }"
                 % (et, cn, et, et, et, et))
    for cn, tag in implicit_assign:
        h.append("static inline struct %s* %s(struct %s* a, struct %s* b) { *a = *b; return a; } /* implicit operator= */"
                 % (tag, cn, tag, tag))
    for cn, tag, deep in defaulted_assign:
        h.append("static inline struct %s* %s(struct %s* a, struct %s* b) { if (a != b) { *a = *b; %s } return a; } /* defaulted copy operator= */"
                 % (tag, cn, tag, tag, " ".join("a->%s = %s_copy(&b->%s);" % (f, m, f) for f, m in deep)))
    h.append("static inline void* vf_new_array(size_t n, size_t sz) { void* p = calloc(n, sz); __CPROVER_assume(p != 0); return p; }")
    for cn, v in sorted(em.const_inits.items()):
        h.append("enum { %s = %d }; /* const integral global of the real code, value read from its declaration */" % (cn, v))
    for cn, ct in sorted(em.globals.items()):
        h.append("extern %s %s;" % (ct, cn))
        if cn in const_init:
            # value of the compile-time constant as found in the source (the verifier treats statics as nondet:
            # contracts pin it with `requires X == VFI_X`)
            h.append("#define VFI_%s (%s)" % (cn, const_init[cn]))
    news = []
    for cn, (tag, ctor, params) in sorted(em.news.items()):
        if ctor in em.unit_names:
            ps = ", ".join("%s a%d" % (p, i) for i, p in enumerate(params))
            news.append("struct %s* %s(%s)\n{\n  struct %s* p = (struct %s*)malloc(sizeof(struct %s));\n"
                        "  __CPROVER_assume(p != 0);\n  %s(%s);\n  return p;\n}\n" %
                        (tag, cn, ps or "void", tag, tag, tag, ctor,
                         ", ".join(["p"] + ["a%d" % i for i in range(len(params))])))
            em.unit_names.add(cn)
    for cn, (tag, ctor, params) in sorted(em.makes.items()):
        if ctor in em.unit_names:
            ps = ", ".join("%s a%d" % (p, i) for i, p in enumerate(params))
            news.append("struct %s %s(%s)\n{\n  struct %s r;\n  %s(%s);\n  return r;\n}\n" %
                        (tag, cn, ps or "void", tag, ctor, ", ".join(["&r"] + ["a%d" % i for i in range(len(params))])))
            em.unit_names.add(cn)
    h.append("/* ---- prototypes (units and callees) ---- */")
    for cn, (ret, params, variadic, src) in sorted(em.protos.items()):
        if cn.startswith("vf_") and cn not in em.callees:
            continue
        ps = list(params) + (["..."] if variadic else [])
        h.append("%s %s(%s); /* %s */" % (ret, cn, ", ".join(ps) if ps else "void", src.replace("*/", "* /")))
    with open(os.path.join(outdir, "gen.h"), "w") as f:
        f.write("\n".join(h) + "\n")
    c = []
    for cn, ct in sorted(em.globals.items()):
        if cn not in cfg.get("extern_globals", []):  # extern_globals are defined by the spec (e.g. generated tables)
            c.append("%s %s%s;" % (ct, cn, " = " + const_init[cn] if cn in const_init else ""))
    c.append("int vf_exc;")
    for cn in em.hooked:  # config call_hooks: the spec may have defined the macro (a ghost wrapper around the call)
        c.append("#ifndef VF_CALL_%s\n#define VF_CALL_%s(...) %s(__VA_ARGS__)\n#endif" % (cn, cn, cn))
    for lt in em.lifted:
        c.append(lt)
    c += news
    for cname, text, unit in texts:
        for k in range(unit.loops):
            m = "VF_LOOP_%s_%d" % (cname, k)
            c.append("#ifndef %s\n#define %s\n#endif" % (m, m))
        # a plain lemma harness (no dfcc) may stand in for contract replacement by hand: -DVF_OVERRIDE_<cname> drops the
        # unit's body so that the spec supplies a stub stating the unit's separately proved specification (the stub
        # asserts the precondition it was proved under; the substitution is listed in check.json `trusted`)
        c.append("/* ---- unit %s ---- */\n#ifndef VF_OVERRIDE_%s" % (cname, cname))
        c.append(text)
        c.append("#endif")
    with open(os.path.join(outdir, "gen.c"), "w") as f:
        f.write("\n".join(c) + "\n")
    info = {"units": meta,
            "callees": {k: v for k, v in em.callees.items() if k not in em.unit_names},
            "dropped": {k: em.dropped.count(k) for k in set(em.dropped)},
            "models": {"seq": tm.seq_insts, "pair": {k: list(v) for k, v in tm.pair_insts.items()},
                       "opt": tm.opt_insts, "set": tm.set_insts,
                       "ilist": {k: list(v) for k, v in tm.ilist_insts.items()},
                       "map": {k: list(v) for k, v in tm.map_insts.items()}},
            "exceptions": sorted(em.exc_kinds), "truncated_at_stop_call": sorted(set(em.truncated)),
            "call_hooks": list(em.hooked)}
    with open(os.path.join(outdir, "gen.json"), "w") as f:
        json.dump(info, f, indent=1)
    return info


def main():
    cfg = json.load(open(sys.argv[1]))
    try:
        translate(cfg, sys.argv[2])
    except (Unsupported, ExtractionError, astq.ClangError) as e:
        sys.stderr.write("cxx2c: extraction failed: %s\n" % e)
        sys.exit(2)


if __name__ == "__main__":
    main()
