"""clang JSON AST -> C emitter (DESIGN.md section 3.2). Total on a fixed subset; anything else raises Unsupported."""
import re
from cxxtypes import TypeMap, Unsupported, parse, strip_ref, peel, ident, T, SEQS, SMART_PTRS

TRANSPARENT = {"ExprWithCleanups", "MaterializeTemporaryExpr", "CXXBindTemporaryExpr", "ConstantExpr",
               "SubstNonTypeTemplateParmExpr", "FullExpr"}
LOG_CALLS = {"_xbt_log_event_log", "_xbt_log_cat_init"}
ABORT_CALLS = {"xbt_abort", "abort"}
DROP_CALLS = {"xbt_backtrace_display_current"}
# wrappers W(closure, ...) whose meaning for the calling actor is "run the closure once, now, and return its result"
# (simcall_answered: the kernel runs the closure in maestro context while the caller is blocked). The closure is lifted
# into a C function and called in place; the assumption is reported in gen.json "dropped".
SYNC_WRAPPERS = {"simcall_answered"}
ARITH_CASTS = {"IntegralCast", "FloatingToIntegral", "IntegralToFloating", "FloatingCast", "IntegralToBoolean",
               "FloatingToBoolean", "PointerToBoolean", "BooleanToSignedIntegral", "PointerToIntegral",
               "IntegralToPointer"}
NOOP_CASTS = {"LValueToRValue", "NoOp", "FunctionToPointerDecay", "ArrayToPointerDecay", "ConstructorConversion",
              "UserDefinedConversion", "BuiltinFnToFnPtr", "AtomicToNonAtomic", "NonAtomicToAtomic"}


def qt(n):
    t = n.get("type")
    if isinstance(t, dict):
        return t.get("desugaredQualType") or t.get("qualType")
    return None


def sugar(n):
    t = n.get("type")
    return t.get("qualType") if isinstance(t, dict) else None


def kids(n):
    return [c for c in n.get("inner", []) if c.get("kind") not in (None,) or c == {}]


def skip(n):
    """strip transparent wrappers and parens/implicit casts (for pattern matching only)"""
    while n.get("kind") in TRANSPARENT or n.get("kind") in ("ParenExpr", "ImplicitCastExpr"):
        n = n["inner"][0]
    return n


def contains(n, pred):
    if pred(n):
        return True
    return any(contains(c, pred) for c in n.get("inner", []) if isinstance(c, dict))


class Unit:
    def __init__(self, cname, node, cls=None, kind="func"):
        self.cname, self.node, self.cls, self.kind = cname, node, cls, kind
        self.loops = 0
        self.tmp = 0


class Emitter:
    def __init__(self, tm, libmap=None, cfg=None):
        self.tm = tm
        self.cfg = cfg or {}
        self.structs = {}  # tag -> {field: ctype}  (insertion ordered)
        self.bases = {}  # tag -> [base tags] in order
        self.protos = {}  # cname -> (ret, [param ctypes], source type string)
        self.globals = {}  # cname -> ctype
        self.const_globals = {}  # cname -> (C++ name, tu) of globals used as compile-time constants
        self.enum_consts = {}  # C name -> (enum type, const name)
        self.lifted = []  # extra function texts (lambdas, per-call-site models of std algorithms)
        self.lifted_units = []  # their descriptions {cname, of, kind, loops}
        self.upcasts = set()  # (derived tag, base tag) pointer conversions emitted as plain casts
        self.unit = None
        self.refvars = [set()]
        self.renames = self.cfg.get("rename", {})
        self.const_types = {}  # const_globals name -> C type
        self.truncated = []  # units cut at a stop_at_call statement
        self.hooked = []  # callees whose calls are emitted as VF_CALL_<cname>(..) (config call_hooks)
        self.lib = libmap
        self.dropped = []
        self.callees = {}  # cname -> description
        self.unit_names = set()
        self.news = {}
        self.makes = {}  # by-value constructions of plain classes: cname -> (tag, ctor cname, param ctypes)
        self.const_needed = set()
        self.const_inits = {}  # C name -> int value of a const integral global (emitted as enum constant)
        self._const_cache = {}
        self.cur_tu = None
        self.field_inits = {}
        self.callflag = False

    # ---------------------------------------------------------------- types
    def learn_types(self, n):
        t = n.get("type")
        if isinstance(t, dict) and "desugaredQualType" in t:
            self.tm.learn(t.get("qualType"), t["desugaredQualType"])
        for c in n.get("inner", []):
            if isinstance(c, dict):
                self.learn_types(c)

    def ctype(self, n_or_str):
        s = n_or_str if isinstance(n_or_str, str) else qt(n_or_str)
        if s is None:
            raise Unsupported("node without type: %s" % n_or_str.get("kind"))
        try:
            return self.tm.c(parse(s))
        except Unsupported:
            if not isinstance(n_or_str, str) and sugar(n_or_str) and sugar(n_or_str) != s:
                return self.tm.c(parse(sugar(n_or_str)))
            raise

    def ptype(self, n):
        return parse(qt(n))

    def is_ref_type(self, s):
        return parse(s).kind in ("ref", "rref")

    def param_ctype(self, t):
        """C type for a parameter of parsed C++ type t: const T& of scalar/pointer-like -> by value; other refs -> pointer."""
        if t.kind in ("ref", "rref"):
            inner = self.tm.c(t.to)
            if self.by_value(t):
                return inner
            return inner + "*"
        return self.tm.c(t)

    def by_value(self, t):
        """reference parameter passed by value? (const ref or rvalue ref to a scalar / pointer-like mapped type)"""
        if t.kind == "rref":
            inner = self.tm.c(t.to)
            return not inner.startswith("struct ") or inner.endswith("*")
        if t.kind == "ref" and t.to.const:
            inner = self.tm.c(t.to)
            return (not inner.startswith("struct ")) or inner.endswith("*")
        return False

    # ---------------------------------------------------------------- naming
    def fn_cname(self, cls, name, typestr=None):
        base = (cls + "__" if cls else "") + self.op_name(name)
        if name == "ctor" and cls and typestr:
            # copy / move constructors get their own C names (overloads of the constructor of one class)
            m = re.match(r"void \((const )?([\w:]+) ?(&&?)\)", typestr)
            if m and m.group(2).split("::")[-1] == cls:
                if m.group(3) == "&&":
                    base += "_move"
                elif m.group(1):
                    base += "_copy"
        key = base + "|" + (typestr or "")
        if key in self.renames:
            return self.renames[key]
        if base in self.renames:
            return self.renames[base]
        return base

    @staticmethod
    def op_name(name):
        if name.startswith("operator"):
            sym = name[len("operator"):].strip()
            table = {"()": "call", "==": "eq", "!=": "ne", "<": "lt", "=": "assign", "[]": "index", "->": "arrow",
                     "*": "star", "+=": "addassign", "++": "inc", "--": "dec", "<<": "shl", "+": "plus",
                     "-": "minus", "<=": "le", ">": "gt", ">=": "ge", "bool": "bool", "<=>": "cmp", "-=": "subassign"}
            return "operator_" + table.get(sym, ident(sym))
        if name.startswith("~"):
            return "dtor_" + name[1:]
        return ident(name)

    def note_proto(self, cname, ret, params, src, variadic=False):
        old = self.protos.get(cname)
        new = (ret, tuple(params), variadic)

        def canon(p):  # size_t and unsigned long are the same C type on the LP64 target: not a collision
            return (re.sub(r"\bsize_t\b", "unsigned long", p[0]), tuple(re.sub(r"\bsize_t\b", "unsigned long", x) for x in p[1]), p[2])
        if old and canon(old[:3]) == canon(new):
            return
        if old and (old[0], old[1], old[2]) != new:
            raise Unsupported("C name collision for %s: %s vs %s (add a rename in the spec config)" %
                              (cname, old[:3], new))
        self.protos[cname] = (ret, tuple(params), variadic, src)

    def field(self, tag, name, ctype):
        d = self.structs.setdefault(tag, {})
        if name in d and d[name] != ctype:
            raise Unsupported("field %s.%s has two types: %s / %s" % (tag, name, d[name], ctype))
        d[name] = ctype

    def add_base(self, derived, base):
        self.structs.setdefault(derived, {})
        self.structs.setdefault(base, {})
        b = self.bases.setdefault(derived, [])
        if base not in b:
            b.append(base)

    # ---------------------------------------------------------------- expressions
    def E(self, n):
        k = n.get("kind")
        m = getattr(self, "e_" + k, None)
        if m is None:
            raise Unsupported("expression kind %s" % k)
        if k in ("CallExpr", "CXXMemberCallExpr"):
            return self.nested_call(n, m)
        if k == "ConditionalOperator" or (k == "BinaryOperator" and n.get("opcode") in ("&&", "||")):
            self.lazy_depth = getattr(self, "lazy_depth", 0) + 1
            try:
                return m(n)
            finally:
                self.lazy_depth -= 1
        return m(n)

    def nested_call(self, n, m):
        """A call to a non-model function that is evaluated INSIDE another call (as its argument), e.g.
        memcpy(f(x), src, n): the exception model's `if (vf_exc) return` after the whole statement would come too
        late (the outer call would run on f's dummy return value, whereas the real program has already aborted).
        Such an inner call is hoisted into a temporary followed by the propagation test. Not done under ?: && ||
        (evaluation there is conditional) nor for calls returning references/void/structs."""
        depth = getattr(self, "call_depth", 0)
        self.call_depth = depth + 1
        before = self.callflag
        self.callflag = False
        try:
            e = m(n)
        finally:
            self.call_depth = depth
        mine, self.callflag = self.callflag, (before or self.callflag)
        if not (mine and depth > 0 and getattr(self, "lazy_depth", 0) == 0 and self.cfg.get("exceptions", True)):
            return e
        if n.get("valueCategory") != "prvalue" or e.startswith("(*"):
            return e
        try:
            ct = self.ctype(n)
        except Unsupported:
            return e
        if ct == "void" or (ct.startswith("struct ") and not ct.endswith("*")):
            return e
        tmp = self.new_tmp(ct, e)
        self.pre.append("if (vf_exc) " + self.ret_zero())
        return tmp

    def e_transparent(self, n):
        return self.E(n["inner"][0])

    e_ExprWithCleanups = e_MaterializeTemporaryExpr = e_CXXBindTemporaryExpr = e_ConstantExpr = e_transparent
    e_SubstNonTypeTemplateParmExpr = e_FullExpr = e_transparent

    def e_ParenExpr(self, n):
        return "(" + self.E(n["inner"][0]) + ")"

    def e_IntegerLiteral(self, n):
        v = n["value"]
        t = qt(n)
        suf = {"unsigned int": "U", "long": "L", "unsigned long": "UL", "long long": "LL", "unsigned long long": "ULL"}
        return v + suf.get(t, "")

    def e_FloatingLiteral(self, n):
        v = n["value"]
        if not re.search(r"[.eEnN]", v):
            v += ".0"
        if qt(n) == "float":
            v += "f"
        elif qt(n) == "long double":
            v += "L"
        return v

    def e_CharacterLiteral(self, n):
        return "((char)%d)" % n["value"]

    def e_StringLiteral(self, n):
        return n["value"]

    def e_CXXBoolLiteralExpr(self, n):
        return "1" if n["value"] else "0"

    def e_CXXNullPtrLiteralExpr(self, n):
        return "NULL"

    e_GNUNullExpr = e_CXXNullPtrLiteralExpr

    def e_CXXThisExpr(self, n):
        return "self"

    def e_CXXScalarValueInitExpr(self, n):
        return "((%s)0)" % self.ctype(n)

    e_ImplicitValueInitExpr = e_CXXScalarValueInitExpr

    def e_PredefinedExpr(self, n):
        return '"func"'

    def e_UnaryExprOrTypeTraitExpr(self, n):
        name = n.get("name")
        if name not in ("sizeof", "alignof"):
            raise Unsupported("type trait " + str(name))
        if "argType" in n:
            at = n["argType"].get("desugaredQualType") or n["argType"]["qualType"]
            return "sizeof(%s)" % self.array_or_ctype(at)
        inner = n["inner"][0]
        return "sizeof(%s)" % self.E(inner)

    def array_or_ctype(self, s):
        t = parse(s)
        if t.kind == "array":
            return "%s[%s]" % (self.tm.c(t.to), t.n)
        return self.tm.c(t)

    def e_DeclRefExpr(self, n):
        rd = n["referencedDecl"]
        kind, name = rd.get("kind"), rd.get("name")
        if kind == "EnumConstantDecl":
            et = (rd.get("type") or {}).get("qualType", "")
            cn = ident(et.split("::")[-1]) + "__" + name if et and not et.startswith("(") else name
            if et in self.cfg.get("enum_rename", {}):
                # "enum_rename": {qualified enum type: C prefix} keeps apart two enums with the same last name
                cn = self.cfg["enum_rename"][et] + "__" + name
            elif self.enum_consts.get(cn, (et, name)) != (et, name):
                # same-named constant of two enums with the same last name (e.g. Action::State / activity::State)
                cn = ident("_".join(et.split("::")[-2:])) + "__" + name
            self.enum_consts[cn] = (et, name)
            return cn
        if kind in ("ParmVarDecl", "VarDecl", "BindingDecl"):
            rt = (rd.get("type") or {}).get("qualType", "")
            if kind == "VarDecl" and rt.replace("const ", "") in ("std::strong_ordering", "strong_ordering") and \
                    name in ("less", "equal", "equivalent", "greater"):
                return {"less": "(-1)", "equal": "0", "equivalent": "0", "greater": "1"}[name]
            if kind == "VarDecl" and rd["id"] not in self.locals and not self.is_local_name(name):
                # global / static member variable
                cn = self.global_name(n, rd)
                if n.get("nonOdrUseReason") == "constant" and getattr(self, "cur_tu", None):
                    # compile-time constant (constexpr / const with constant initialiser): its value is looked up
                    # in the same TU by cxx2c.translate and emitted as the initialiser of the C global
                    self.const_globals.setdefault(cn, (name, self.cur_tu))
                return cn
            cname = self.local_name(rd)
            if rd["id"] in self.ref_ids:
                return "(*%s)" % cname
            return cname
        if kind in ("FunctionDecl", "CXXMethodDecl"):
            fnt = (rd.get("type") or {}).get("qualType")
            cname = self.fn_cname(None, name, fnt)
            if cname == self.op_name(name) and kind == "CXXMethodDecl":
                # address of a static member function: named like the configured unit `...::Class::name`, as calls are
                cands = [u for u in self.cfg.get("units", [])
                         if len(u["name"].split("::")) >= 2 and u["name"].split("::")[-1] == name]
                if len(cands) == 1:
                    cname = cands[0].get("cname") or \
                        self.fn_cname(self.tm.struct_tag(cands[0]["name"].split("::")[-2]), name, fnt)
            return cname
        if kind == "FieldDecl":
            # captured field inside a lambda body
            return "self->" + name
        raise Unsupported("DeclRefExpr to %s" % kind)

    def is_local_name(self, name):
        return False

    def local_name(self, rd):
        return self.local_names.get(rd["id"], ident(rd.get("name") or "anon"))

    def global_name(self, n, rd):
        name = rd["name"]
        # same member name in two classes (Aid::INVALID_VALUE / Clock::INVALID_VALUE): a config key "<Class>::<name>"
        # (class of the unit that mentions it) or "<name>|<c type>" takes precedence over the bare name
        rtype = (rd.get("type") or {}).get("desugaredQualType") or (rd.get("type") or {}).get("qualType", "")
        for qn in ("%s::%s" % (self.unit.cls, name), "%s|%s" % (name, rtype.replace("const ", ""))):
            if qn in self.cfg.get("const_globals", {}) or qn in self.cfg.get("globals", {}):
                name = qn
                break
        if name in self.cfg.get("const_globals", {}):
            # compile-time constant of the real code: evaluated by the real compiler (cxx2c.eval_constants)
            self.const_needed.add(name)
            try:  # keep the constant's own type (an `unsigned` flag must not become a signed int literal)
                self.const_types[name] = self.ctype((rd.get("type") or {}).get("desugaredQualType") or rd["type"]["qualType"])
            except Unsupported:
                pass
            return "VFC_" + ident(name)
        cv = self.const_global_value(name, rd)
        if cv is not None:
            # namespace-scope `constexpr`/`const` integer with a literal initialiser (e.g. `constexpr int MAX = 80;`):
            # emitted as a C enumeration constant carrying the value read from the real declaration
            self.const_inits[ident(name)] = cv
            return ident(name)
        gmap = self.cfg.get("globals", {})
        cn = gmap.get(name, ident(name))
        ct = self.ctype((rd.get("type") or {}).get("desugaredQualType") or rd["type"]["qualType"]) \
            if name not in self.cfg.get("global_types", {}) else self.cfg["global_types"][name]
        if cn in self.globals and self.globals[cn] != ct:
            raise Unsupported("global %s has two types" % cn)
        self.globals[cn] = ct
        return cn

    def const_global_value(self, name, rd):
        """value of a const-qualified integral global whose initialiser is an integer/bool literal, else None"""
        import astq
        tq = (rd.get("type") or {}).get("desugaredQualType") or (rd.get("type") or {}).get("qualType") or ""
        if not tq.startswith("const ") or "*" in tq or "&" in tq or not getattr(self, "cur_tu", None):
            return None
        if tq[6:] not in ("int", "unsigned int", "long", "unsigned long", "short", "unsigned short", "char", "bool"):
            return None
        if name in self.cfg.get("globals", {}) or name in self.cfg.get("global_types", {}):
            return None
        key = (self.cur_tu, name)
        if key not in self._const_cache:
            val = None
            try:
                for o in astq.query(self.cur_tu, name):
                    if o.get("kind") == "VarDecl" and o.get("name") == name and o.get("init"):
                        e = [x for x in o.get("inner", []) if isinstance(x, dict) and x.get("kind") != "FullComment"]
                        e = e[-1] if e else None
                        while e and e.get("kind") in ("ImplicitCastExpr", "ConstantExpr", "ParenExpr", "ExprWithCleanups") \
                                and "value" not in e and e.get("inner"):
                            e = e["inner"][0]
                        if e and e.get("kind") in ("IntegerLiteral", "ConstantExpr", "CXXBoolLiteralExpr") and "value" in e:
                            v = e["value"]
                            val = int(v) if not isinstance(v, bool) else int(v)
            except (astq.ClangError, ValueError, TypeError):
                val = None
            if val is not None and not (-2**31 <= val < 2**31):
                val = None
            self._const_cache[key] = val
        return self._const_cache[key]

    def e_MemberExpr(self, n):
        base = n["inner"][0]
        name = n["name"]
        bt = self.ptype(base)
        if qt(n) == "<bound member function type>":
            raise Unsupported("bound member function outside call")
        # `set.insert(v).second` / `set.emplace(v).second` on a modelled set: "was it new" -> vf_set_<T>_insert_new
        core = skip(base)
        if name == "second" and not n.get("isArrow") and core.get("kind") == "CXXMemberCallExpr" and core.get("inner"):
            me = skip(core["inner"][0])
            if me.get("kind") == "MemberExpr" and me.get("name") in ("insert", "emplace") and len(core["inner"]) == 2:
                sct = self.try_ctype(me["inner"][0])
                if sct and sct.startswith("struct vf_set_"):
                    obj = self.E(me["inner"][0]) if me.get("isArrow") else self.addr_of(me["inner"][0])
                    return "%s_insert_new(%s, %s)" % (sct[len("struct "):].rstrip("*"), obj, self.E(core["inner"][1]))
        # static data member accessed through object
        tag = self.tm.class_tag_of(bt)
        b = self.E(base)
        fct = self.field_ctype(n)
        self.field(tag, name, fct)
        if n.get("isArrow"):
            return "%s->%s" % (self.paren(b), name)
        return "%s.%s" % (self.paren(b), name)

    def field_ctype(self, n):
        s = qt(n)
        t = parse(s)
        if t.kind == "array":
            return "%s @[%s]" % (self.tm.c(t.to), t.n)
        if t.kind in ("ref", "rref"):
            return self.tm.c(t.to) + "*"
        return self.ctype(n)

    @staticmethod
    def paren(s):
        if re.fullmatch(r"[A-Za-z_][A-Za-z_0-9]*(->[A-Za-z_0-9]+|\.[A-Za-z_0-9]+)*", s) or \
                (s.startswith("(") and s.endswith(")") and Emitter.balanced(s[1:-1])):
            return s
        return "(" + s + ")"

    @staticmethod
    def balanced(s):
        d = 0
        for ch in s:
            if ch == "(":
                d += 1
            elif ch == ")":
                d -= 1
                if d < 0:
                    return False
        return d == 0

    def e_ImplicitCastExpr(self, n):
        ck = n.get("castKind")
        inner = n["inner"][0]
        if ck in NOOP_CASTS:
            return self.E(inner)
        if ck == "NullToPointer":
            return "NULL"
        if ck in ARITH_CASTS:
            return "((%s)%s)" % (self.ctype(n), self.paren(self.E(inner)))
        if ck == "BitCast":
            return "((%s)%s)" % (self.ctype(n), self.paren(self.E(inner)))
        if ck in ("DerivedToBase", "UncheckedDerivedToBase"):
            sct, dct = self.try_ctype(inner), self.try_ctype(n)
            if sct is not None and sct == dct and (not sct.startswith("struct ") or sct.endswith("*") or
                                                   sct.startswith("struct vf_")):
                return self.E(inner)  # library class and its base mapped to the same scalar / same model type
            return self.derived_to_base(n, inner)
        if ck == "BaseToDerived":
            return self.base_to_derived(n, inner)
        if ck == "ToVoid":
            return "((void)%s)" % self.paren(self.E(inner))
        raise Unsupported("cast kind %s" % ck)

    def derived_to_base(self, n, inner):
        src = self.ptype(inner)
        is_ptr = self.tm.resolve(strip_ref(src)).kind == "ptr"
        dtag = self.tm.class_tag_of(src)
        path = self.cast_path(n, dtag)
        if not path:
            raise Unsupported("derived-to-base cast without path")
        dct = self.try_ctype(n)
        if len(path) == 1 and dct and dct.rstrip("*").startswith("struct vf_"):
            path = [dct.rstrip("*")[len("struct "):]]  # class deriving from a modelled std container: base = the model
        elif self.cfg.get("template_base_tags") and dct and dct.rstrip("*").startswith("struct " + path[-1] + "_"):
            # (opt-in, config template_base_tags: specs written before this rule name the base member without arguments)
            # the last base is a template instantiation that clang prints without its arguments in the path: the
            # destination type of the cast names it completely (DelayedSimcallObserver -> DelayedSimcallObserver_bool)
            path[-1] = dct.rstrip("*")[len("struct "):]
        e = self.paren(self.E(inner))
        cur = dtag
        acc = (e + "->") if is_ptr else (e + ".")
        parts = []
        for b in path:
            self.add_base(cur, b)
            parts.append("__b_" + b)
            cur = b
        if is_ptr:
            return "(&%s%s)" % (acc, ".".join(parts))
        return "%s%s" % (acc, ".".join(parts))

    def cast_path(self, n, dtag):
        """struct tags along a derived-to-base path. clang prints template bases without arguments: they are
        resolved against already known bases of the class, else as the CRTP instantiation Base<Derived>."""
        out, cur = [], dtag
        for p in n.get("path", []):
            nm = p["name"]
            if "<" in nm:
                tag = self.tm.class_tag_of(parse(nm))
            else:
                tag = self.tm.struct_tag(nm)
                known = [b for b in self.bases.get(cur, []) if b == tag or b.startswith(tag + "_")]
                if known:
                    tag = known[0]
                elif nm in self.cfg.get("crtp_bases", ["ActivityImpl_T", "Activity_T"]):
                    tag = tag + "_" + cur
            out.append(tag)
            cur = tag
        return out

    def base_to_derived(self, n, inner):
        dst = self.ptype(n)
        src = self.ptype(inner)
        dtag = self.tm.class_tag_of(dst)
        btag = self.tm.class_tag_of(src)
        path = self.cast_path(n, dtag)
        cur = dtag
        for b in path:
            self.add_base(cur, b)
            if self.bases[cur][0] != b:
                raise Unsupported("downcast through a non-first base %s of %s" % (b, cur))
            cur = b
        if self.tm.resolve(strip_ref(src)).kind != "ptr":
            return "(*(struct %s*)&%s)" % (dtag, self.paren(self.E(inner)))
        return "((struct %s*)%s)" % (dtag, self.paren(self.E(inner)))

    def e_explicit_cast(self, n):
        ck = n.get("castKind")
        inner = n["inner"][0]
        if ck in ("NoOp", "ConstructorConversion", "UserDefinedConversion", "LValueToRValue"):
            src = self.try_ctype(inner)
            dst = self.try_ctype(n)
            if src is not None and dst is not None and src != dst and not dst.startswith("struct "):
                return "((%s)%s)" % (dst, self.paren(self.E(inner)))
            return self.E(inner)
        if ck in ("DerivedToBase", "UncheckedDerivedToBase"):
            return self.derived_to_base(n, inner)
        if ck == "BaseToDerived":
            return self.base_to_derived(n, inner)
        if ck == "Dynamic":
            src = self.tm.class_tag_of(self.ptype(inner))
            dst = self.tm.class_tag_of(self.ptype(n))
            cn = "vf_dyncast_%s_to_%s" % (src, dst)
            self.note_proto(cn, "struct %s*" % dst, ["struct %s*" % src], "dynamic_cast")
            self.callees[cn] = "dynamic_cast<%s*>(%s*)" % (dst, src)
            return "%s(%s)" % (cn, self.E(inner))
        if ck == "ToVoid":
            return "((void)%s)" % self.paren(self.E(inner))
        return "((%s)%s)" % (self.ctype(n), self.paren(self.E(inner)))

    e_CStyleCastExpr = e_CXXStaticCastExpr = e_CXXFunctionalCastExpr = e_CXXReinterpretCastExpr = e_explicit_cast
    e_CXXConstCastExpr = e_CXXDynamicCastExpr = e_explicit_cast

    def try_ctype(self, n):
        try:
            return self.ctype(n)
        except Unsupported:
            return None

    def e_UnaryOperator(self, n):
        op = n["opcode"]
        x = self.E(n["inner"][0])
        if n.get("isPostfix"):
            return "%s%s" % (self.paren(x), op)
        if op in ("__extension__",):
            return x
        return "%s%s" % (op, self.paren(x))

    def e_BinaryOperator(self, n):
        a, b = n["inner"]
        op = n["opcode"]
        if op == ",":
            return "(%s, %s)" % (self.E(a), self.E(b))
        if op == "&&" and self.is_log_isenabled(n):
            # XBT_LOG_ISENABLED(cat, prio): run-time logging configuration = unconstrained environment flag
            self.globals["vf_log_enabled"] = "_Bool"
            return "vf_log_enabled"
        if op == "=" and self.try_ctype(a) and self.try_ctype(a).startswith("struct vf_str"):
            pass
        if op == "<=>":
            # three-way comparison of builtin operands: std::strong_ordering is mapped to int (-1, 0, 1)
            return "VF_CMP3(%s, %s)" % (self.E(a), self.E(b))
        return "%s %s %s" % (self.paren(self.E(a)), op, self.paren(self.E(b)))

    e_CompoundAssignOperator = e_BinaryOperator

    @staticmethod
    def is_log_isenabled(n):
        """structural match of _XBT_LOG_ISENABLEDV: (prio >= STATIC && (cat.initialized || _xbt_log_cat_init(..))) && prio >= cat.threshold"""
        def noparen(x):
            while x.get("kind") in ("ParenExpr", "ImplicitCastExpr"):
                x = x["inner"][0]
            return x
        l = noparen(n["inner"][0])
        if l.get("kind") != "BinaryOperator" or l.get("opcode") != "&&":
            return False
        o = noparen(l["inner"][1])
        if o.get("kind") != "BinaryOperator" or o.get("opcode") != "||":
            return False
        c = noparen(o["inner"][1])
        return c.get("kind") == "CallExpr" and \
            skip(c["inner"][0]).get("referencedDecl", {}).get("name") == "_xbt_log_cat_init"

    def e_CXXRewrittenBinaryOperator(self, n):
        return self.E(n["inner"][0])

    def e_ConditionalOperator(self, n):
        c, a, b = n["inner"]
        ta, tb = skip(a).get("kind") == "CXXThrowExpr", skip(b).get("kind") == "CXXThrowExpr"
        if ta != tb:
            # `cond ? value : throw X(..)` (or the mirror image): the throw becomes a statement before the one that
            # holds the expression; only where the conditional is evaluated unconditionally (no enclosing ?: && ||)
            if getattr(self, "lazy_depth", 0) > 1:
                raise Unsupported("conditional throw under ?: && ||")
            ce = self.paren(self.E(c))
            thr = self.s_CXXThrowExpr(skip(a if ta else b), "")[0]
            self.pre.append("if (%s%s) %s" % ("" if ta else "!", ce, thr))
            return self.E(b if ta else a)
        # Plain form when both arms are pure expressions. When an arm needs statements of its own (a temporary built by
        # a constructor, `throw X(..)` as an arm), the ?: becomes `T t; if (c) { ..; t = a; } else { ..; t = b; }` hoisted
        # before the enclosing statement; only when this ?: is not itself evaluated conditionally.
        throws = [skip(x).get("kind") == "CXXThrowExpr" for x in (a, b)]
        if not any(throws):
            mark = (len(self.pre), self.unit.tmp)
            try:
                return "(%s ? %s : %s)" % (self.paren(self.E(c)), self.paren(self.E(a)), self.paren(self.E(b)))
            except Unsupported:
                del self.pre[mark[0]:]
                self.unit.tmp = mark[1]
        depth = getattr(self, "lazy_depth", 0)
        if depth != 1:
            raise Unsupported("?: whose arms need statements, inside a conditionally evaluated expression")
        ce = self.paren(self.E(c))
        ct = self.ctype(n)
        self.unit.tmp += 1
        tmp = "__t%d" % self.unit.tmp
        saved, arms = self.pre, []
        try:
            self.lazy_depth = 0
            for x, thr in zip((a, b), throws):
                self.pre = []
                if thr:
                    arms.append(self.s_CXXThrowExpr(skip(x), "")[0])
                else:
                    e = self.E(x)
                    arms.append("{ %s %s = %s; }" % (" ".join(self.pre), tmp, e))
        finally:
            self.lazy_depth = depth
            self.pre = saved
        self.pre.append("%s %s;" % (ct, tmp))
        self.pre.append("if (%s) %s else %s" % (ce, arms[0], arms[1]))
        return tmp

    def e_ArraySubscriptExpr(self, n):
        a, b = n["inner"]
        return "%s[%s]" % (self.paren(self.E(a)), self.E(b))

    def e_InitListExpr(self, n):
        tq = n.get("type") or {}
        if (tq.get("desugaredQualType") or tq.get("qualType") or "").rstrip().endswith("]"):
            # initializer of a C array member (e.g. the `{{a, b, c}}` of a std::array): nested brace list
            return "{%s}" % ", ".join(self.E(c) for c in n.get("inner", []))
        ct = self.ctype(n)
        items = [self.E(c) for c in n.get("inner", [])]
        if ct.startswith("struct vf_pair_") or ct.startswith("struct "):
            return "((%s){%s})" % (ct, ", ".join(items) if items else "0")
        if len(items) == 1:
            return items[0]
        if not items:
            return "((%s)0)" % ct
        raise Unsupported("init list for " + ct)

    def e_CXXDefaultArgExpr(self, n):
        inner = n.get("inner")
        if inner:
            return self.E(inner[0])
        raise Unsupported("default argument (not printed by clang): give it explicitly via config default_args")

    def e_CXXDefaultInitExpr(self, n):
        inner = n.get("inner")
        if inner:
            return self.E(inner[0])
        raise Unsupported("default member initializer without expression")

    def e_CXXNewExpr(self, n):
        if n.get("isArray"):
            size = self.E(n["inner"][0])
            et = self.tm.c(self.ptype(n).to)
            return "((%s*)vf_new_array(%s, sizeof(%s)))" % (et, size, et)
        inner = [c for c in n.get("inner", [])]
        pt = self.ptype(n)
        et = self.tm.c(pt.to)
        if not et.startswith("struct "):
            init = self.E(inner[0]) if inner else "0"
            cn = "vf_new_" + self.tm.tag(et)
            self.lifted_new.add((cn, et))
            return "%s(%s)" % (cn, init)
        tag = et[len("struct "):]
        ce = inner[-1] if inner else None
        if ce is None or skip(ce).get("kind") not in ("CXXConstructExpr",):
            raise Unsupported("new without constructor call")
        ce = skip(ce)
        args = self.call_args(ce.get("inner", []), self.fn_params_from(ce.get("ctorType", {}).get("qualType")))
        cn = self.fn_cname(tag, "new", ce.get("ctorType", {}).get("qualType"))
        params = self.param_ctypes_from(ce.get("ctorType", {}).get("qualType"))
        self.note_proto(cn, et + "*", params, "new " + tag + " " + ce.get("ctorType", {}).get("qualType", ""))
        self.callees[cn] = "new %s%s" % (tag, ce.get("ctorType", {}).get("qualType", ""))
        self.callflag = True
        self.news[cn] = (tag, self.fn_cname(tag, "ctor", ce.get("ctorType", {}).get("qualType")), params)
        return "%s(%s)" % (cn, ", ".join(args))

    def e_CXXDeleteExpr(self, n):
        self.dropped.append("delete")
        return "((void)0)"

    # ---- calls
    def fn_params_from(self, fnt):
        if not fnt:
            return None
        t = parse(fnt)
        while t.kind in ("ptr", "ref"):
            t = t.to
        if t.kind != "func":
            raise Unsupported("not a function type: " + fnt)
        return t.params

    def param_ctypes_from(self, fnt):
        ps = self.fn_params_from(fnt) or []
        return [self.param_ctype(p) for p in ps if not (p.kind == "named" and p.name == "...")]

    def ret_ctype_from(self, fnt):
        t = parse(fnt)
        while t.kind in ("ptr", "ref") and t.to.kind == "func":
            t = t.to
        r = t.ret
        if r.kind in ("ref", "rref"):
            return self.tm.c(r.to) + "*", True
        return self.tm.c(r), False

    def arg(self, a, p):
        """emit argument a for parameter of parsed C++ type p"""
        if p is not None and p.kind in ("ref", "rref") and not self.by_value(p):
            return self.addr_of(a)
        return self.E(a)

    def addr_of(self, a):
        """address of the object designated by expression a (materialise prvalues into temporaries)"""
        core = a
        while core.get("kind") in TRANSPARENT or (core.get("kind") == "ImplicitCastExpr" and
                                                   core.get("castKind") == "NoOp"):
            if core.get("kind") == "MaterializeTemporaryExpr":
                inner = core["inner"][0]
                ct = self.ctype(core)
                tmp = self.new_tmp(ct, self.E(inner))
                return "&" + tmp
            core = core["inner"][0]
        if core.get("kind") == "ConditionalOperator" and core.get("valueCategory") == "lvalue":
            # C has no lvalue conditional: &(c ? a : b) -> (c ? &a : &b)
            c, a, b = core["inner"]
            return "(%s ? %s : %s)" % (self.paren(self.E(c)), self.addr_of(a), self.addr_of(b))
        e = self.E(core)
        if core.get("valueCategory") == "prvalue":
            tmp = self.new_tmp(self.ctype(core), e)
            return "&" + tmp
        if e.startswith("(*") and e.endswith(")") and self.balanced(e[2:-1]):
            return e[2:-1]
        return "&" + self.paren(e)

    def new_tmp(self, ct, init):
        self.unit.tmp += 1
        name = "__t%d" % self.unit.tmp
        self.pre.append("%s %s = %s;" % (ct, name, init))
        return name

    def call_args(self, args, params):
        out = []
        for i, a in enumerate(args):
            p = None
            if params is not None and i < len(params):
                p = params[i]
                if p.kind == "named" and p.name == "...":
                    p = None
            out.append(self.arg(a, p))
        return out

    def finish_call(self, cname, fnt, args, desc):
        ret, isref = self.ret_ctype_from(fnt)
        params = self.param_ctypes_from(fnt)
        variadic = any(p.kind == "named" and p.name == "..." for p in (self.fn_params_from(fnt) or []))
        return cname, ret, isref, params, variadic

    def e_CallExpr(self, n):
        callee = n["inner"][0]
        args = n["inner"][1:]
        c = skip(callee)
        if c.get("kind") == "DeclRefExpr" and c["referencedDecl"].get("kind") in ("FunctionDecl", "CXXMethodDecl"):
            rd = c["referencedDecl"]
            name = rd["name"]
            fnt = (rd.get("type") or {}).get("qualType")
            if name in self.cfg.get("sync_wrappers", SYNC_WRAPPERS) and args and \
                    skip(args[0]).get("kind") == "LambdaExpr":
                return self.call_lambda_now(skip(args[0]), n, name)
            r = self.lib.free_call(self, n, name, args, fnt) if self.lib else None
            if r is not None:
                return r
            if name in ABORT_CALLS:
                return "VF_ABORT()"
            if name in DROP_CALLS:
                self.dropped.append(name)
                return "((void)0)"
            # plain call of a CXXMethodDecl = static member function. clang's JSON gives no qualifier for the callee, so the
            # class is only known when the callee is itself a configured unit `...::Class::name`: then it is named like
            # that unit (Class__name); any other static callee keeps its bare name, as before.
            cname = self.fn_cname(None, name, fnt)
            if cname == self.op_name(name) and rd.get("kind") == "CXXMethodDecl":  # no explicit rename applies
                cands = [u for u in self.cfg.get("units", [])
                         if len(u["name"].split("::")) >= 2 and u["name"].split("::")[-1] == name]
                if len(cands) == 1:  # unambiguous: named like that unit
                    cname = cands[0].get("cname") or \
                        self.fn_cname(self.tm.struct_tag(cands[0]["name"].split("::")[-2]), name, fnt)
            params = self.fn_params_from(fnt)
            a = self.call_args(args, params)
            if (fnt or "").startswith("typename ") and n.get("valueCategory") == "prvalue":
                # instantiated template whose result is spelled as a dependent alias (typename std::invoke_result_t<F>):
                # the call expression carries the desugared type
                ret, isref = self.ctype(n), False
            else:
                ret, isref = self.ret_ctype_from(fnt)
            pc = self.param_ctypes_from(fnt)
            # free function templates: config template_methods {"<name>": "arg<i>" | "ret"} gives each instantiation its
            # own C name, after the C type of that parameter / of the result (same rule as for member templates), e.g.
            # simcall_answered(closure returning void) -> simcall_answered__void
            tsel = self.cfg.get("template_methods", {}).get(name)
            if tsel is not None and cname == self.op_name(name):
                tct = ret if tsel == "ret" else pc[int(tsel[3:])]
                cname += "__" + re.sub(r"_+", "_", ident(tct.replace("*", " ptr"))).strip("_")
            variadic = any(p.kind == "named" and p.name == "..." for p in (params or []))
            self.note_proto(cname, ret, pc, fnt, variadic)
            self.callees.setdefault(cname, "%s : %s" % (name, fnt))
            self.callflag = True
            s = "%s(%s)" % (self.call_target(cname), ", ".join(a))
            return "(*%s)" % s if isref else s
        # call through function pointer / std::function handled in libmap
        r = self.lib.indirect_call(self, n, callee, args) if self.lib else None
        if r is not None:
            return r
        raise Unsupported("indirect call")

    def e_CXXMemberCallExpr(self, n):
        me = skip(n["inner"][0])
        args = n["inner"][1:]
        if me.get("kind") != "MemberExpr":
            raise Unsupported("member call through %s" % me.get("kind"))
        base = me["inner"][0]
        name = me["name"]
        bt = self.ptype(base)
        r = self.lib.member_call(self, n, me, base, name, args) if self.lib else None
        if r is not None:
            return r
        tag = self.tm.class_tag_of(bt)
        self.structs.setdefault(tag, {})
        obj = self.E(base)
        if not me.get("isArrow"):
            obj = self.addr_of_expr_string(obj, base)
        return self.inferred_call(n, tag, name, obj, args)

    def infer_arg(self, a):
        """clang prints no signature for a called method: infer each parameter from the argument expression
        (lvalue/xvalue => reference parameter; same by-value rule as definitions, see by_value())."""
        cat = a.get("valueCategory")
        core = a
        while core.get("kind") in TRANSPARENT:
            core = core["inner"][0]
        t = self.ptype(a)
        if a.get("kind") == "CXXDefaultArgExpr":
            return None
        if cat in ("lvalue", "xvalue"):
            rt = T("rref" if cat == "xvalue" else "ref", to=t)
            if cat == "lvalue" and not t.const:
                # non-const lvalue: could bind to T& or const T&; scalars/pointers are only ever passed to T& when
                # the callee writes them. Prefer pointer for non-const lvalues of class type, value for const.
                pass
            if self.by_value(rt):
                return self.tm.c(t), self.E(a)
            return self.tm.c(t) + "*", self.addr_of(a)
        return self.ctype(a), self.E(a)

    def inferred_call(self, n, tag, name, obj, args):
        pcs, avs = [], []
        for a in args:
            r = self.infer_arg(a)
            if r is None:
                key = (tag + "__" if tag else "") + name
                d = self.cfg.get("default_args", {}).get(key)
                if d is None:
                    raise Unsupported("default argument in call to %s (add default_args[%s] to the config)" % (name, key))
                idx = len(pcs)
                pcs.append(d[str(idx)][0])
                avs.append(d[str(idx)][1])
                continue
            pcs.append(r[0])
            avs.append(r[1])
        isref = n.get("valueCategory") == "lvalue"
        rs = qt(n)
        ret = self.ctype(n)
        if isref:
            ret += "*"
        cname = self.fn_cname(tag, name, ",".join(pcs))  # overloads: rename key "Class__m|<inferred C param types>"
        # overloads may also be distinguished by arity: config rename {"Class__name/<number of arguments>": cname}
        cname = self.renames.get("%s/%d" % (cname, len(args)), cname)
        # member function templates (clang prints no template arguments at the call): config
        # template_methods {"Class__method": "arg<i>" | "ret"} names the instantiation after the C type of that
        # argument / of the result, e.g. Channel::pack<int>(v) -> Channel__pack__int, unpack<bool>() -> Channel__unpack__bool
        tsel = self.cfg.get("template_methods", {}).get((tag + "__" if tag else "") + name)
        if tsel is not None:
            tct = ret if tsel == "ret" else pcs[int(tsel[3:])]
            cname += "__" + re.sub(r"_+", "_", ident(tct.replace("*", " ptr"))).strip("_")
        pc = (["struct %s*" % tag] if obj is not None else []) + pcs
        self.note_proto(cname, ret, pc, "%s::%s (signature inferred at call site)" % (tag, name))
        self.callees.setdefault(cname, "%s::%s" % (tag, name))
        self.callflag = True
        s = "%s(%s)" % (self.call_target(cname), ", ".join(([obj] if obj is not None else []) + avs))
        return "(*%s)" % s if isref else s

    def call_target(self, cname):
        """config call_hooks [cname, ...]: every call of such a function that a unit makes is emitted as
        VF_CALL_<cname>(args), a macro that defaults to the plain call (gen.c) and that a spec may define as a ghost
        wrapper (log the call, then make it): call sequences become observable without touching callee or contract."""
        if cname in self.cfg.get("call_hooks", []):
            if cname not in self.hooked:
                self.hooked.append(cname)
            return "VF_CALL_" + cname
        return cname

    def addr_of_expr_string(self, e, node):
        if e.startswith("(*") and e.endswith(")") and self.balanced(e[2:-1]):
            return e[2:-1]
        if skip(node).get("valueCategory") == "prvalue" and skip(node).get("kind") not in ("DeclRefExpr", "MemberExpr"):
            tmp = self.new_tmp(self.ctype(node), e)
            return "&" + tmp
        return "&" + self.paren(e)

    def e_CXXOperatorCallExpr(self, n):
        callee = skip(n["inner"][0])
        args = n["inner"][1:]
        rd = callee.get("referencedDecl", {})
        name = rd.get("name", "")
        fnt = (rd.get("type") or {}).get("qualType")
        r = self.lib.operator_call(self, n, name, args, fnt, rd) if self.lib else None
        if r is not None:
            return r
        if rd.get("kind") == "CXXMethodDecl" and args:
            # overloaded operator of a (SimGrid) class: an ordinary method call on the first operand
            ct0 = self.try_ctype(args[0])
            if ct0 and ct0.startswith("struct ") and not ct0.endswith("*") and not ct0.startswith("struct vf_"):
                tag = ct0[len("struct "):]
                self.structs.setdefault(tag, {})
                if name == "operator=" and fnt:
                    # copy or move assignment? (used when the class's operator= is compiler-generated, see cxx2c.translate)
                    if not hasattr(self, "assign_kinds"):
                        self.assign_kinds = {}
                    self.assign_kinds.setdefault(tag, set()).add("move" if "&&)" in fnt else "copy")
                return self.inferred_call(n, tag, name, self.addr_of(args[0]), args[1:])
        raise Unsupported("operator call %s on %s" % (name, qt(args[0]) if args else "?"))

    def e_CXXConstructExpr(self, n):
        r = self.lib.construct(self, n) if self.lib else None
        if r is not None:
            return r
        oc = self.cfg.get("opaque_ctor", {})
        try:
            octag = self.tm.class_tag_of(self.ptype(n))
        except Unsupported:
            octag = None
        if octag in oc:
            # config opaque_ctor {Class: [kept argument indices]}: the object is an opaque value made by an assumed callee
            # Class__make(kept arguments); the other constructor arguments are not modelled.
            args = [a for a in n.get("inner", [])]
            pcs, avs = [], []
            for i in oc[octag]:
                r2 = self.infer_arg(args[i])
                pcs.append(r2[0])
                avs.append(r2[1])
            cname = octag + "__make"
            self.structs.setdefault(octag, {})
            self.note_proto(cname, "struct " + octag, pcs, "opaque constructor of %s (arguments %s kept)" % (octag, oc[octag]))
            self.callees.setdefault(cname, "%s::%s (opaque)" % (octag, octag))
            self.callflag = True
            return "%s(%s)" % (cname, ", ".join(avs))
        r = self.class_construct(n, None)
        if r is not None:
            return r
        # by-value construction of a plain (non-model) class: `T(args)` -> `T__make(args)`, a function returning the
        # struct; its body (`struct T r; T__ctor(&r, args); return r;`) is generated when the constructor is a unit,
        # otherwise it is a callee that needs an assumed contract in the spec
        ct = self.try_ctype(n)
        fnt = n.get("ctorType", {}).get("qualType")
        if ct and fnt and ct.startswith("struct ") and not ct.endswith("*") and not ct.startswith("struct vf_"):
            tag = ct[len("struct "):]
            args = self.call_args(n.get("inner", []), self.fn_params_from(fnt))
            cn = self.fn_cname(tag, "make", fnt)
            params = self.param_ctypes_from(fnt)
            self.note_proto(cn, ct, params, "by-value construction of " + tag + " " + fnt)
            self.callees[cn] = "by-value %s%s" % (tag, fnt)
            self.callflag = True
            self.structs.setdefault(tag, {})
            self.makes[cn] = (tag, self.fn_cname(tag, "ctor", fnt), params)
            return "%s(%s)" % (cn, ", ".join(args))
        raise Unsupported("constructor of %s (%s)" % (qt(n), fnt))

    def class_construct(self, n, target):
        """object of a (SimGrid) class built by one of its constructors: a temporary (or `target`, the name of a declared
        variable) initialised by a call to the constructor, which is a unit or a callee like any other function
        (defaulted copy/move constructors have bodies in clang's AST: they are extracted, not assumed)."""
        ct = self.try_ctype(n)
        fnt = n.get("ctorType", {}).get("qualType")
        if ct is None or not fnt or not ct.startswith("struct ") or ct.endswith("*") or ct.startswith("struct vf_"):
            return None
        tag = ct[len("struct "):]
        args = [a for a in n.get("inner", [])]
        if n.get("elidable") and len(args) == 1 and args[0].get("valueCategory") == "prvalue" and \
                self.try_ctype(args[0]) == ct:
            return self.E(args[0])  # copy elision of a prvalue (guaranteed since C++17)
        self.structs.setdefault(tag, {})
        cn = self.fn_cname(tag, "ctor", fnt)
        params = self.fn_params_from(fnt)
        self.note_proto(cn, "void", ["struct %s*" % tag] + self.param_ctypes_from(fnt), "ctor %s %s" % (tag, fnt))
        self.callees.setdefault(cn, "%s::%s %s" % (tag, tag, fnt))
        if target is None and getattr(self, "lazy_depth", 0) > 0:
            # under ?: && || the temporary must be built where the expression is evaluated (not hoisted before the
            # statement): GNU statement expression; the exception test is the one after the whole statement
            pre, avs = self.with_pre(lambda: self.call_args(self.with_cfg_defaults(cn, args), params))
            self.callflag = True
            self.unit.tmp += 1
            t = "__t%d" % self.unit.tmp
            return "({ %s %s; %s %s(%s); %s; })" % (ct, t, " ".join(pre), cn, ", ".join(["&" + t] + avs), t)
        avs = self.call_args(self.with_cfg_defaults(cn, args), params)
        self.callflag = True
        if target is None:
            self.unit.tmp += 1
            target = "__t%d" % self.unit.tmp
            self.pre.append("%s %s;" % (ct, target))
        self.pre.append("%s(%s);" % (cn, ", ".join(["&" + target] + avs)))
        if self.cfg.get("exceptions", True):
            self.pre.append("if (vf_exc) " + self.ret_zero())
        return target

    def with_cfg_defaults(self, cn, args):
        """default arguments clang does not print (CXXDefaultArgExpr without expression) are taken from the config:
        default_args {<callee C name>: {<index>: [ctype, C expression]}} -> a literal node the emitter prints as is"""
        out = []
        for i, a in enumerate(args):
            if a.get("kind") == "CXXDefaultArgExpr" and not a.get("inner"):
                d = self.cfg.get("default_args", {}).get(cn, {}).get(str(i))
                if d is None:
                    raise Unsupported("default argument %d in call to %s (add default_args[%s] to the config)" % (i, cn, cn))
                a = {"kind": "VfLiteral", "text": d[1], "valueCategory": "prvalue"}
            out.append(a)
        return out

    def e_VfLiteral(self, n):
        return n["text"]

    e_CXXTemporaryObjectExpr = e_CXXConstructExpr

    def e_LambdaExpr(self, n):
        r = self.lib.lambda_expr(self, n) if self.lib else None
        if r is not None:
            return r
        raise Unsupported("lambda in this position")

    def lift_lambda_fn(self, n):
        """captureless lambda -> static C function <unit>__lambda<k> (its operator() body, translated like any
        function); returns the C name. Lambdas with captures are outside the subset."""
        rec = next((c for c in n.get("inner", []) if c.get("kind") == "CXXRecordDecl"), None)
        if rec is None or any(c.get("kind") == "FieldDecl" for c in rec.get("inner", [])):
            raise Unsupported("lambda with captures")
        op = next((c for c in rec.get("inner", []) if c.get("kind") == "CXXMethodDecl" and c.get("name") == "operator()"),
                  None)
        if op is None or not any(c.get("kind") == "CompoundStmt" for c in op.get("inner", [])):
            raise Unsupported("lambda without a plain operator() body (generic lambda?)")
        self.lambda_count = getattr(self, "lambda_count", 0) + 1
        cname = "%s__lambda%d" % (self.unit.cname, self.lambda_count)
        keep = ("unit", "unit_ret", "unit_ret_isref", "locals", "local_names", "ref_ids", "used_local_names", "pre",
                "cn", "callflag", "stop_at_call")
        saved = {k: getattr(self, k, None) for k in keep}
        self.stop_at_call = None
        try:
            sig, text, unit = self.emit_function(op, cname, None, True)
        finally:
            for k, v in saved.items():
                setattr(self, k, v)
        self.lifted.append(text)
        self.unit_names.add(cname)
        return cname

    # ---- lambda lifting: closure -> lifted C function `ret f(void* __env, params)` + capture struct; the closure
    #      value is a struct vf_fn {fn, env} (same representation as a modelled std::function)
    UNIT_STATE = ("unit", "unit_ret", "unit_ret_isref", "locals", "local_names", "ref_ids", "used_local_names", "pre",
                  "cn", "callflag")

    @staticmethod
    def lambda_call_op(rec):
        """the operator() definition of a closure class (for a generic lambda: its last concrete instantiation)"""
        def has_body(m):
            return any(c.get("kind") == "CompoundStmt" for c in m.get("inner", []))
        for c in rec.get("inner", []):
            if c.get("kind") == "CXXMethodDecl" and c.get("name") == "operator()" and has_body(c):
                return c
        for c in rec.get("inner", []):
            if c.get("kind") == "FunctionTemplateDecl" and c.get("name") == "operator()":
                ms = [m for m in c.get("inner", []) if m.get("kind") == "CXXMethodDecl" and has_body(m) and
                      not re.search(r"\bauto\b", m.get("type", {}).get("qualType", ""))]
                if len(ms) == 1:
                    return ms[0]
                raise Unsupported("generic lambda with %d instantiations" % len(ms))
        raise Unsupported("lambda without operator() body")

    @staticmethod
    def captured_entity(init):
        """what a capture initialiser designates: ('this', None) or ('var', referencedDecl)"""
        core = init
        while True:
            core = skip(core)
            k = core.get("kind")
            if k == "CXXConstructExpr" and len(core.get("inner", [])) == 1:
                core = core["inner"][0]  # by-copy capture of a class-typed variable: copy constructor
                continue
            if k == "CXXThisExpr":
                return "this", None
            if k == "DeclRefExpr" and core["referencedDecl"].get("kind") in ("ParmVarDecl", "VarDecl"):
                return "var", core["referencedDecl"]
            raise Unsupported("lambda capture initialised by %s (init-capture / *this are outside the subset)" % k)

    def lift_lambda(self, n, heap=False):
        """LambdaExpr -> expression of type struct vf_fn. The body becomes the function <unit>__lambda<k>(void* __env,
        params...) (emitted before the units, prototype in gen.h, so a spec may give it a contract); captures travel in
        struct <unit>__lambda<k>_env: by-reference captures as pointers, by-copy captures as values, `this` as `self`.
        heap=True (closure stored in a std::function slot, may outlive the block): the capture struct is malloc'ed."""
        inner = n.get("inner", [])
        if not inner or inner[0].get("kind") != "CXXRecordDecl":
            raise Unsupported("lambda without closure class")
        rec = inner[0]
        op = self.lambda_call_op(rec)
        fields = [c for c in rec.get("inner", []) if c.get("kind") == "FieldDecl"]
        inits = [c for c in inner[1:] if c.get("kind") != "CompoundStmt"]
        if len(fields) != len(inits):
            raise Unsupported("lambda: %d capture fields but %d initialisers" % (len(fields), len(inits)))
        outer = self.unit
        k = getattr(outer, "lambdas", 0)
        outer.lambdas = k + 1
        cname = "%s__lambda%d" % (outer.cname, k)
        envtag = cname + "_env"
        caps, vals = [], []  # (field name, field ctype, by_ref, referenced decl or None), initialiser C expressions
        for f, init in zip(fields, inits):
            what, rd = self.captured_entity(init)
            ft = parse(qt(f))
            if what == "this":
                caps.append(("self", self.tm.c(ft), False, None))
                vals.append("self")
                continue
            by_ref = ft.kind in ("ref", "rref")
            fct = self.tm.c(ft.to) + "*" if by_ref else self.tm.c(ft)
            fname = ident(rd.get("name") or "cap%d" % len(caps))
            caps.append((fname, fct, by_ref, rd))
            vals.append(self.addr_of(init) if by_ref else self.E(init))
        optype = op.get("type", {}).get("qualType", "")
        if any(not c[2] and c[3] is not None for c in caps) and not re.search(r"\)\s*const\b", optype):
            raise Unsupported("mutable lambda with by-copy captures")
        for fname, fct, _, _ in caps:
            self.field(envtag, fname, fct)

        def prologue():
            if not caps:
                return []
            out = ["struct %s* __cap = (struct %s*)__env;" % (envtag, envtag)]
            for fname, fct, by_ref, rd in caps:
                if rd is None:
                    out.append("%s self = __cap->self;" % fct)
                    continue
                name = self.decl_local({"id": rd["id"], "name": rd.get("name")}, by_ref)
                out.append("%s %s = __cap->%s;" % (fct, name, fname))
            return out

        saved = {a: getattr(self, a) for a in self.UNIT_STATE}
        try:
            sig, text, unit = self.emit_function(op, cname, None, env_prologue=prologue)
        finally:
            for a, v in saved.items():
                setattr(self, a, v)
        macros = "".join("#ifndef VF_LOOP_%s_%d\n#define VF_LOOP_%s_%d\n#endif\n" % (cname, j, cname, j)
                         for j in range(unit.loops))
        self.lifted.append("%s/* ---- lambda %d of %s ---- */\n%s" % (macros, k, outer.cname, text))
        self.unit_names.add(cname)
        self.lifted_units.append({"cname": cname, "of": outer.cname, "kind": "lambda", "loops": unit.loops})
        self.callflag = True  # the body may run (now or later) and raise
        fn = "(vf_fnptr)%s" % cname
        if not caps:
            return "((struct vf_fn){%s, 0})" % fn
        if heap:
            self.unit.tmp += 1
            tmp = "__t%d" % self.unit.tmp
            self.pre.append("struct %s* %s = (struct %s*)malloc(sizeof(struct %s));" % (envtag, tmp, envtag, envtag))
            self.pre.append("__CPROVER_assume(%s != 0);" % tmp)
            self.pre.append("*%s = (struct %s){%s};" % (tmp, envtag, ", ".join(vals)))
            return "((struct vf_fn){%s, %s})" % (fn, tmp)
        tmp = self.new_tmp("struct " + envtag, "{%s}" % ", ".join(vals))
        return "((struct vf_fn){%s, &%s})" % (fn, tmp)

    def fn_elem_call(self, f, pct, ect, ret):
        """C expression calling the vf_fn value `f` on the sequence element b[i] (parameter ctype pct, element ctype ect)"""
        if pct == ect:
            a = "b[i]"
        elif pct == ect + "*":
            a = "&b[i]"
        else:
            raise Unsupported("callable takes %s but the elements are %s" % (pct, ect))
        return "((%s (*)(void*, %s))%s.fn)(%s.env, %s)" % (ret, pct, f, f, a)

    ALGO_BODIES = {
        # name -> (return ctype or None = element pointer, body template); CALL = predicate on b[i]; loop ordinal 0
        "find_if": (None, "  for (; i < cnt; i++)\n    LOOP\n  {\n    if (CALL) break;\n    EXC\n  }\n  return b + i;\n"),
        "find_if_not": (None, "  for (; i < cnt; i++)\n    LOOP\n  {\n    if (!CALL) break;\n    EXC\n  }\n  return b + i;\n"),
        "any_of": ("_Bool", "  for (; i < cnt; i++)\n    LOOP\n  {\n    if (CALL) break;\n    EXC\n  }\n  return i < cnt;\n"),
        "none_of": ("_Bool", "  for (; i < cnt; i++)\n    LOOP\n  {\n    if (CALL) break;\n    EXC\n  }\n  return !(i < cnt);\n"),
        "all_of": ("_Bool", "  for (; i < cnt; i++)\n    LOOP\n  {\n    if (!CALL) break;\n    EXC\n  }\n  return !(i < cnt);\n"),
        "count_if": ("long", "  long c = 0;\n  for (; i < cnt; i++)\n    LOOP\n  {\n    if (CALL) c++;\n    EXC\n  }\n  return c;\n"),
        "for_each": ("struct vf_fn", "  for (; i < cnt; i++)\n    LOOP\n  {\n    CALL;\n    EXC\n  }\n  return f;\n"),
        "remove_if": (None, "  size_t w = 0;\n  for (; i < cnt; i++)\n    LOOP\n  {\n    _Bool r = CALL;\n    EXC\n"
                            "    if (!r) { b[w] = b[i]; w++; }\n  }\n  return b + w;\n"),
    }

    def algo_call(self, n, name, args):
        """std::<name>(first, last, callable) over a modelled sequence -> call of a per-call-site model function
        <unit>__<name><k>(T* b, T* e, struct vf_fn f) whose loop is VF_LOOP_<unit>__<name><k>_0 (the spec supplies the
        loop contract: only the spec knows the predicate). The callable is called through the struct vf_fn."""
        ret0, tmpl = self.ALGO_BODIES[name]
        ct = self.try_ctype(args[0])
        if ct is None or not ct.endswith("*") or self.try_ctype(args[1]) != ct:
            return None
        ect = ct[:-1]
        core = skip(args[2])
        while core.get("kind") == "CXXConstructExpr" and len(core.get("inner", [])) == 1:
            core = skip(core["inner"][0])  # copy/move of the closure into the by-value parameter
        b, e = self.E(args[0]), self.E(args[1])
        if core.get("kind") == "LambdaExpr":
            fv = self.lift_lambda(core)
            lam = self.lifted_units[-1]["cname"]
            pcs = self.protos[lam][1]
            if len(pcs) != 2:
                raise Unsupported("std::%s with a callable of %d parameters" % (name, len(pcs) - 1))
            pct, pret = pcs[1], self.protos[lam][0]
        elif self.try_ctype(args[2]) == "struct vf_fn":
            fv = self.E(args[2])
            pct = ect if (not ect.startswith("struct ") or ect.endswith("*")) else ect + "*"
            pret = "void" if name == "for_each" else "_Bool"
        else:
            return None
        outer = self.unit
        k = getattr(outer, "algos", 0)
        outer.algos = k + 1
        cname = "%s__%s%d" % (outer.cname, name, k)
        ret = ret0 or ct
        call = self.fn_elem_call("f", pct, ect, pret)
        exc = "if (vf_exc) break;" if self.cfg.get("exceptions", True) else ";"
        subst = {"LOOP": "VF_LOOP_%s_0" % cname, "CALL": call, "EXC": exc}
        body = re.sub(r"\b(LOOP|CALL|EXC)\b", lambda m: subst[m.group(1)], tmpl)
        text = ("#ifndef VF_LOOP_%s_0\n#define VF_LOOP_%s_0\n#endif\n/* ---- model of std::%s, call %d in %s ---- */\n"
                "%s %s(%s b, %s e, struct vf_fn f)\n{\n  size_t cnt = (size_t)(e - b);\n  size_t i = 0;\n%s}\n" %
                (cname, cname, name, k, outer.cname, ret, cname, ct, ct, body))
        self.lifted.append(text)
        self.note_proto(cname, ret, [ct, ct, "struct vf_fn"], "model of std::%s at its call site" % name)
        self.unit_names.add(cname)
        self.lifted_units.append({"cname": cname, "of": outer.cname, "kind": "std::" + name, "loops": 1})
        self.callflag = True
        return "%s(%s, %s, %s)" % (cname, b, e, fv)

    def call_lambda_now(self, lam, call, wrapper):
        """W(lambda) for a synchronous wrapper W: the closure body becomes the C function <unit>__lambda<k>; captures
        become its parameters (this -> self, by-copy -> value, by-reference -> pointer); the call is emitted in place."""
        rec = lam["inner"][0]
        ops = [c for c in rec.get("inner", []) if c.get("kind") == "CXXMethodDecl" and c.get("name") == "operator()"]
        fields = [c for c in rec.get("inner", []) if c.get("kind") == "FieldDecl"]
        if len(ops) != 1:
            raise Unsupported("generic lambda")
        op = ops[0]
        if any(c.get("kind") == "ParmVarDecl" for c in op.get("inner", [])):
            raise Unsupported("lambda with parameters passed to %s" % wrapper)
        body = [c for c in op.get("inner", []) if c.get("kind") == "CompoundStmt"]
        caps = lam["inner"][1:1 + len(fields)]
        if len(body) != 1 or len(caps) != len(fields):
            raise Unsupported("lambda layout")
        ret = self.ctype(call)
        self.unit.lambdas = getattr(self.unit, "lambdas", 0) + 1
        cname = "%s__lambda%d" % (self.unit.cname, self.unit.lambdas - 1)
        params, ptypes, avs, binds = [], [], [], []
        for f, cap in zip(fields, caps):
            core = skip(cap)
            ft = parse(qt(f))
            if core.get("kind") == "CXXThisExpr":
                tag = self.tm.class_tag_of(self.ptype(core))
                params.append("struct %s* self" % tag)
                ptypes.append("struct %s*" % tag)
                avs.append("self")
            elif core.get("kind") == "DeclRefExpr" and core["referencedDecl"].get("kind") in ("VarDecl", "ParmVarDecl"):
                rd = core["referencedDecl"]
                name = self.local_name(rd)
                if "->" in name:
                    raise Unsupported("capture of a structured binding")
                if ft.kind in ("ref", "rref"):
                    ct = self.tm.c(ft.to) + "*"
                    avs.append(self.addr_of(core))
                    binds.append((rd["id"], name, True))
                else:
                    ct = self.tm.c(ft)
                    avs.append(self.E(cap))
                    binds.append((rd["id"], name, False))
                params.append("%s %s" % (ct, name))
                ptypes.append(ct)
            else:
                raise Unsupported("lambda capture initialised by %s" % core.get("kind"))
        saved = (self.unit, self.unit_ret, self.unit_ret_isref, self.locals, self.local_names, self.ref_ids,
                 self.used_local_names, self.pre, self.cn, self.callflag)
        unit = Unit(cname, op, self.unit.cls, "lambda")
        self.begin_unit(unit, ret, False)
        for did, name, isref in binds:
            self.locals.add(did)
            self.local_names[did] = name
            self.used_local_names[name] = did
            if isref:
                self.ref_ids.add(did)
        blines = self.s_CompoundStmt(body[0], "")
        (self.unit, self.unit_ret, self.unit_ret_isref, self.locals, self.local_names, self.ref_ids,
         self.used_local_names, self.pre, self.cn, self.callflag) = saved
        text = ""
        for k in range(unit.loops):
            m = "VF_LOOP_%s_%d" % (cname, k)
            text += "#ifndef %s\n#define %s\n#endif\n" % (m, m)
        text += "/* ---- closure passed to %s in %s ---- */\n" % (wrapper, self.unit.cname)
        text += "%s %s(%s)\n%s\n" % (ret, cname, ", ".join(params) if params else "void", "\n".join(blines))
        self.lifted.append(text)
        self.note_proto(cname, ret, ptypes, "closure run by %s" % wrapper)
        self.unit_names.add(cname)
        self.dropped.append("%s(closure) = closure run once in place" % wrapper)
        self.callflag = True
        return "%s(%s)" % (cname, ", ".join(avs))

    def e_CXXStdInitializerListExpr(self, n):
        return self.E(n["inner"][0])

    def e_CXXThrowExpr(self, n):
        raise Unsupported("throw inside an expression")

    def e_StmtExpr(self, n):
        raise Unsupported("statement expression")

    def e_OpaqueValueExpr(self, n):
        if n.get("inner"):
            return self.E(n["inner"][0])
        raise Unsupported("opaque value")

    # ---------------------------------------------------------------- statements
    def S(self, n, ind):
        k = n.get("kind")
        stops = self.cfg.get("stop_at_call")
        if stops and k not in ("CompoundStmt", "IfStmt", "ForStmt", "WhileStmt", "DoStmt", "SwitchStmt", "CXXForRangeStmt",
                               "CXXTryStmt", "CaseStmt", "DefaultStmt", "LabelStmt"):
            # config stop_at_call: the unit is translated only up to the first simple statement that calls one of the
            # listed functions (e.g. the simcall that hands over to the kernel): that statement becomes a return. The
            # contract of the unit then speaks about the prefix only; the truncation is recorded in gen.json.
            def hit(x):
                if x.get("kind") in ("CallExpr", "CXXMemberCallExpr"):
                    c = skip(x["inner"][0]) if x.get("inner") else {}
                    nm = (c.get("referencedDecl") or {}).get("name") or c.get("name")
                    return nm in stops
                return False
            if contains(n, hit):
                self.truncated.append(self.unit.cname)
                return [ind + "/* vf: unit truncated here (stop_at_call) */", ind + self.ret_zero()]
        m = getattr(self, "s_" + k, None)
        if m is not None:
            return m(n, ind)
        core = n
        while core.get("kind") in TRANSPARENT:
            core = core["inner"][0]
        if core.get("kind") == "CXXThrowExpr":  # `throw E(temporary);` is wrapped in ExprWithCleanups
            return self.s_CXXThrowExpr(core, ind)
        if core.get("kind") == "BinaryOperator" and core.get("opcode") == "=" and self.cfg.get("exceptions", True):
            # `lhs = f(..);` where f may throw: in C++ the store does not happen when f throws. The value goes through
            # a temporary and is stored only when no exception is in flight.
            a, b = core["inner"]
            rct = self.try_ctype(b)
            if rct is not None and (not rct.startswith("struct ") or rct.endswith("*")) and rct != "void":
                saved, self.pre = self.pre, []
                flag0, self.callflag = self.callflag, False
                rhs = self.E(b)
                if self.callflag:
                    lhs = self.E(a)
                    pre, self.pre = self.pre, saved
                    self.unit.tmp += 1
                    tmp = "__v%d" % self.unit.tmp
                    out = [ind + "{"] + [ind + "  " + p for p in pre]
                    out.append("%s  %s %s = %s;" % (ind, rct, tmp, rhs))
                    out += self.exc_check(n, ind + "  ")
                    out.append("%s  %s = %s;" % (ind, self.paren(lhs), tmp))
                    out.append(ind + "}")
                    return out
                self.pre, self.callflag = saved, flag0
        # expression statement
        saved = self.pre
        self.pre = []
        e = self.E(n)
        pre, self.pre = self.pre, saved
        out = []
        if e == "VF_ABORT()":
            return [ind + p for p in pre] + [ind + "{ vf_exc = VF_EXC_ABORT; " + self.ret_zero() + " }"]
        if e == "((void)0)" and not pre:
            return []
        if pre:
            out.append(ind + "{")
            out += [ind + "  " + p for p in pre]
            out.append(ind + "  " + e + ";")
            out += self.exc_check(n, ind + "  ")
            out.append(ind + "}")
        else:
            out.append(ind + e + ";")
            out += self.exc_check(n, ind)
        return out

    def with_pre(self, fn):
        """evaluate fn() collecting hoisted temporaries; returns (pre_lines, result)"""
        saved = self.pre
        self.pre = []
        r = fn()
        pre, self.pre = self.pre, saved
        return pre, r

    def has_call(self, n):
        return self.callflag

    def exc_check(self, n, ind):
        """after a statement that called a non-model function: propagate an exception in flight"""
        f, self.callflag = self.callflag, False
        if self.cfg.get("exceptions", True) and f:
            return [ind + "if (vf_exc) " + self.ret_zero()]
        return []

    def ret_zero(self):
        rt = self.unit_ret
        if rt == "void":
            return "return;"
        if rt.startswith("struct ") and not rt.endswith("*"):
            return "{ %s __z = {0}; return __z; }" % rt
        return "return (%s)0;" % rt

    def is_log_stmt(self, n):
        """structural recognition of the XBT_LOG family expansion: do { if (enabled) { ...; _xbt_log_event_log(...); } } while(0)"""
        k = n.get("kind")
        if k == "DoStmt":
            body = n["inner"][0]
            if body.get("kind") == "CompoundStmt":
                ss = body.get("inner", [])
                return len(ss) >= 1 and all(self.is_log_stmt(s) for s in ss)
            return self.is_log_stmt(body)
        if k == "IfStmt" and not n.get("hasElse") and not n.get("hasInit") and not n.get("hasVar"):
            then = n["inner"][-1]
            if self.is_log_stmt(then):
                # `if (f(..)) XBT_DEBUG(..);` written by the program: with the units.json key "keep_log_conditions" the
                # call in the condition is kept (the `if` is emitted with an empty branch) and only the macro's own
                # `if (enabled)` test goes away with the log; without the key the whole statement is dropped
                if not self.cfg.get("keep_log_conditions"):
                    return True

                def foreign_call(x):
                    if x.get("kind") in ("CallExpr", "CXXMemberCallExpr", "CXXOperatorCallExpr"):
                        c = skip(x["inner"][0]) if x.get("inner") else {}
                        return (c.get("referencedDecl") or {}).get("name") not in (LOG_CALLS | DROP_CALLS)
                    return False
                return not contains(n["inner"][0], foreign_call)
            # the macro's own block: { s_xbt_log_event_t _log_ev; _log_ev.f = ...; _xbt_log_event_log(&_log_ev, ...); }
            # (an `if` of the program that merely CONTAINS a log statement is NOT a log statement)
            return then.get("kind") == "CompoundStmt" and len(then.get("inner", [])) >= 1 and \
                all(self.is_log_event_part(s) for s in then["inner"]) and \
                any(s.get("kind") == "CallExpr" or (s.get("kind") in TRANSPARENT and self.is_log_event_part(s))
                    for s in then["inner"])
        if k == "CompoundStmt":
            ss = n.get("inner", [])
            return len(ss) >= 1 and all(self.is_log_stmt(s) for s in ss)
        if k == "CallExpr":
            return skip(n["inner"][0]).get("referencedDecl", {}).get("name") in (LOG_CALLS | DROP_CALLS)
        if k in ("ExprWithCleanups",):
            return self.is_log_stmt(n["inner"][0])
        return False

    @staticmethod
    def is_log_event_part(s):
        """one statement of the XBT_LOG macro's block: declaration of _log_ev, a store into it, or the logging call"""
        while s.get("kind") in TRANSPARENT:
            s = s["inner"][0]
        k = s.get("kind")
        if k == "DeclStmt":
            ds = s.get("inner", [])
            return len(ds) == 1 and ds[0].get("kind") == "VarDecl" and ds[0].get("name") == "_log_ev"
        if k == "BinaryOperator" and s.get("opcode") == "=":
            lhs = skip(s["inner"][0])
            return lhs.get("kind") == "MemberExpr" and \
                skip(lhs["inner"][0]).get("referencedDecl", {}).get("name") == "_log_ev"
        if k == "CallExpr":
            return skip(s["inner"][0]).get("referencedDecl", {}).get("name") in LOG_CALLS
        return False

    def s_CompoundStmt(self, n, ind):
        out = [ind + "{"]
        self.push_scope()
        for s in n.get("inner", []):
            if self.is_log_stmt(s):
                self.dropped.append("log")
                continue
            part = self.S(s, ind + "  ")
            out += part
            if part and part[0].strip() == "/* vf: unit truncated here (stop_at_call) */":
                break  # the rest of this block is behind the truncation point
        self.pop_scope()
        out.append(ind + "}")
        return out

    def push_scope(self):
        pass

    def pop_scope(self):
        pass

    def body(self, n, ind):
        """statement as a braced block"""
        if n.get("kind") == "CompoundStmt":
            return self.s_CompoundStmt(n, ind)
        if self.is_log_stmt(n):
            return [ind + "{ }"]
        return [ind + "{"] + self.S(n, ind + "  ") + [ind + "}"]

    def s_NullStmt(self, n, ind):
        return [ind + ";"]

    def s_DeclStmt(self, n, ind):
        out = []
        for d in n.get("inner", []):
            k = d.get("kind")
            if k == "VarDecl":
                out += self.var_decl(d, ind)
            elif k in ("StaticAssertDecl", "TypedefDecl", "TypeAliasDecl", "UsingDecl", "UsingDirectiveDecl"):
                continue
            elif k in ("CXXRecordDecl", "EnumDecl"):
                raise Unsupported("local class/enum")
            elif k == "DecompositionDecl":
                out += self.decomposition(d, ind)
            else:
                raise Unsupported("declaration kind %s" % k)
        return out

    def decl_local(self, d, is_ref):
        name = ident(d.get("name") or "anon%d" % len(self.locals))
        if name in self.used_local_names and self.used_local_names[name] != d["id"]:
            # shadowing in nested scopes: C allows it too, but for-range rewrites may flatten scopes; keep unique
            i = 2
            while "%s_%d" % (name, i) in self.used_local_names:
                i += 1
            name = "%s_%d" % (name, i)
        self.used_local_names[name] = d["id"]
        self.local_names[d["id"]] = name
        self.locals.add(d["id"])
        if is_ref:
            self.ref_ids.add(d["id"])
        return name

    def var_decl(self, d, ind):
        ts = qt(d)
        t = parse(ts)
        static = d.get("storageClass") == "static"
        init = [c for c in d.get("inner", []) if c.get("kind") not in ("FullComment",)]
        init = init[0] if init else None
        if static:
            # a static local is supported only when it carries no state in the model (std::mutex): plain local
            try:
                sct = self.tm.c(t)
            except Unsupported:
                sct = None
            if sct != "struct vf_std_mutex":
                raise Unsupported("static local variable %s" % d.get("name"))
            name = self.decl_local(d, False)
            return ["%sstruct vf_std_mutex %s = {0};" % (ind, name)]
        if t.kind in ("ref", "rref"):
            ct = self.tm.c(t.to)
            name = self.decl_local(d, True)
            if init is None:
                raise Unsupported("reference without initialiser")
            pre, e = self.with_pre(lambda: self.addr_of(init))
            out = [ind + p for p in pre]
            out.append("%s%s* %s = %s;" % (ind, ct, name, e))
            out += self.exc_check(init, ind)
            return out
        if t.kind == "array":
            ct = self.tm.c(t.to)
            name = self.decl_local(d, False)
            if init is None:
                return ["%s%s %s[%s];" % (ind, ct, name, t.n)]
            core = skip(init)
            if core.get("kind") == "InitListExpr":
                items = [self.E(c) for c in core.get("inner", []) if c.get("kind") != "ImplicitValueInitExpr"]
                filler = core.get("array_filler")
                return ["%s%s %s[%s] = {%s};" % (ind, ct, name, t.n, ", ".join(items) if items else "0")]
            raise Unsupported("array initialiser %s" % core.get("kind"))
        ct = self.ctype(d)
        name = self.decl_local(d, False)
        if init is None:
            return ["%s%s %s;" % (ind, ct, name)]
        core = init
        while core.get("kind") in TRANSPARENT:
            core = core["inner"][0]
        if core.get("kind") in ("CXXConstructExpr", "CXXTemporaryObjectExpr") and self.try_ctype(core) == ct and \
                ct.startswith("struct ") and not ct.startswith("struct vf_") and \
                ct[len("struct "):] not in self.cfg.get("opaque_ctor", {}) and \
                (self.lib is None or self.with_pre(lambda: self.lib.construct(self, core))[1] is None):
            # T x(args);  — the constructor runs on the variable itself
            pre, e = self.with_pre(lambda: self.class_construct(core, name))
            if e == name:
                return ["%s%s %s;" % (ind, ct, name)] + [ind + p for p in pre] + self.exc_check(init, ind)
            if e is not None:
                return [ind + p for p in pre] + ["%s%s %s = %s;" % (ind, ct, name, e)] + self.exc_check(init, ind)
        pre, e = self.with_pre(lambda: self.E(init))
        out = [ind + p for p in pre]
        out.append("%s%s %s = %s;" % (ind, ct, name, e))
        out += self.exc_check(init, ind)
        return out

    def decomposition(self, d, ind):
        # auto [a, b] = expr;  /  auto& [a,b] = expr  over pair-like structs
        inner = d.get("inner", [])
        init = inner[0]
        binds = [b for b in inner[1:] if b.get("kind") == "BindingDecl"]
        ts = qt(d)
        t = parse(ts)
        isref = t.kind in ("ref", "rref")
        ct = self.tm.c(strip_ref(t))
        self.unit.tmp += 1
        tmp = "__d%d" % self.unit.tmp
        out = []
        if isref:
            pre, e = self.with_pre(lambda: self.addr_of(init))
            out += [ind + p for p in pre]
            out.append("%s%s* %s = %s;" % (ind, ct, tmp, e))
        else:
            pre, e = self.with_pre(lambda: self.E(init))
            out += [ind + p for p in pre]
            out.append("%s%s %s_v = %s;" % (ind, ct, tmp, e))
            out.append("%s%s* %s = &%s_v;" % (ind, ct, tmp, tmp))
        fields = ["first", "second"]
        if not ct.startswith("struct vf_pair_"):
            raise Unsupported("structured binding over " + ct)
        for i, b in enumerate(binds):
            name = ident(b["name"])
            self.local_names[b["id"]] = "%s->%s" % (tmp, fields[i])
            self.locals.add(b["id"])
        return out

    def s_ReturnStmt(self, n, ind):
        inner = n.get("inner", [])
        if not inner:
            return [ind + "return;"]
        if self.unit_ret_isref:
            pre, e = self.with_pre(lambda: self.addr_of(inner[0]))
        else:
            pre, e = self.with_pre(lambda: self.E(inner[0]))
        if self.unit_ret == "void":
            out = [ind + p for p in pre] + [ind + e + ";"] + self.exc_check(inner[0], ind) + [ind + "return;"]
        elif self.has_call(inner[0]) and self.cfg.get("exceptions", True):
            out = [ind + p for p in pre] + ["%s%s __r = %s;" % (ind, self.unit_ret, e), ind + "return __r;"]
        else:
            out = [ind + p for p in pre] + [ind + "return " + e + ";"]
        if len(out) > 1:
            return [ind + "{"] + ["  " + o for o in out] + [ind + "}"]
        return out

    def cond(self, n):
        """condition expression; hoisted temporaries are not allowed in loop conditions -> caller decides"""
        return self.E(n)

    def s_IfStmt(self, n, ind):
        inner = list(n["inner"])
        out = []
        opened = False
        if n.get("hasInit"):
            init = inner.pop(0)
            out.append(ind + "{")
            opened = True
            ind2 = ind + "  "
            out += self.S(init, ind2)
        else:
            ind2 = ind
        if n.get("hasVar"):
            var = inner.pop(0)
            if not opened:
                out.append(ind + "{")
                opened = True
                ind2 = ind + "  "
            out += self.S(var, ind2)
        c = inner.pop(0)
        then = inner.pop(0)
        els = inner.pop(0) if inner else None
        core = skip(c)
        if not opened and core.get("kind") == "CXXBoolLiteralExpr" and not core.get("value"):
            # `if (false) { debug code }`: statically dead branch, only the else part (if any) is emitted
            if els is None or self.is_log_stmt(els):
                return []
            return self.body(els, ind)
        pre, ce = self.with_pre(lambda: self.E(c))
        if pre and not opened:
            out.append(ind + "{")
            opened = True
            ind2 = ind + "  "
        out += [ind2 + p for p in pre]
        chk = self.exc_check(c, ind2)
        if chk:
            if not opened:
                out.append(ind + "{")
                opened = True
                ind2 = ind + "  "
                chk = self.exc_check(c, ind2)
            out.append("%s_Bool __c%d = %s;" % (ind2, self.next_c(), ce))
            out += chk
            ce = "__c%d" % self.cn
        out.append("%sif (%s)" % (ind2, ce))
        out += self.body(then, ind2)
        if els is not None:
            if self.is_log_stmt(els):
                pass
            else:
                out.append(ind2 + "else")
                out += self.body(els, ind2)
        if opened:
            out.append(ind + "}")
        return out

    def next_c(self):
        self.cn += 1
        return self.cn

    def loop_macro(self):
        k = self.unit.loops
        self.unit.loops += 1
        m = "VF_LOOP_%s_%d" % (self.unit.cname, k)
        self.loop_macros.append(m)
        return m

    def s_WhileStmt(self, n, ind):
        inner = [c for c in n["inner"]]
        if n.get("hasVar"):
            # `while (T x = e) body`: the variable is declared and tested at the top of every iteration
            # (`continue` in the body re-evaluates the declaration, as in C++)
            var, c, body = inner[0], inner[1], inner[-1]
            m = self.loop_macro()
            ind2 = ind + "  "
            out = [ind + "while (1)", ind2 + m, ind + "{"]
            out += self.S(var, ind2)
            pre, ce = self.with_pre(lambda: self.E(c))
            out += [ind2 + p for p in pre]
            out.append("%sif (!(%s)) break;" % (ind2, ce))
            out += self.body(body, ind2)
            out.append(ind + "}")
            return out
        c, body = inner[0], inner[-1]
        pre, ce = self.with_pre(lambda: self.E(c))
        if pre:
            raise Unsupported("temporaries in while condition")
        m = self.loop_macro()
        out = ["%swhile (%s)" % (ind, ce), ind + "  " + m]
        out += self.body(body, ind)
        return out

    def s_DoStmt(self, n, ind):
        body, c = n["inner"]
        core = skip(c)
        if core.get("kind") in ("IntegerLiteral", "CXXBoolLiteralExpr") and str(core.get("value")) in ("0", "False"):
            # do { } while(0): macro idiom, no loop
            if contains(body, lambda x: x.get("kind") in ("BreakStmt", "ContinueStmt")):
                raise Unsupported("break/continue inside do-while(0)")
            return self.body(body, ind)
        pre, ce = self.with_pre(lambda: self.E(c))
        if pre:
            raise Unsupported("temporaries in do-while condition")
        m = self.loop_macro()
        out = [ind + "do", ind + "  " + m]
        out += self.body(body, ind)
        out.append("%swhile (%s);" % (ind, ce))
        return out

    def s_ForStmt(self, n, ind):
        init, condvar, c, inc, body = n["inner"]
        out = [ind + "{"]
        ind2 = ind + "  "
        if init:
            out += self.S(init, ind2)
        if condvar:
            raise Unsupported("for with condition variable")
        ce = "1"
        cpre = []
        if c:
            cpre, ce = self.with_pre(lambda: self.E(c))
        ie = ""
        if inc:
            pre, ie = self.with_pre(lambda: self.E(inc))
            if pre:
                raise Unsupported("temporaries in for increment")
        m = self.loop_macro()
        if cpre:
            # the condition needs statements (hoisted calls): evaluate it at the top of every iteration;
            # `continue` in the body still reaches the increment expression
            out.append("%sfor (; ; %s)" % (ind2, ie))
            out.append(ind2 + "  " + m)
            out.append(ind2 + "{")
            out += [ind2 + "  " + p for p in cpre]
            out.append("%s  if (!(%s)) break;" % (ind2, ce))
            out += self.body(body, ind2 + "  ")
            out.append(ind2 + "}")
            out.append(ind + "}")
            return out
        out.append("%sfor (; %s; %s)" % (ind2, ce, ie))
        out.append(ind2 + "  " + m)
        out += self.body(body, ind2)
        out.append(ind + "}")
        return out

    def s_CXXForRangeStmt(self, n, ind):
        r = self.lib.for_range(self, n, ind) if self.lib else None
        if r is not None:
            return r
        raise Unsupported("range-for over %s" % qt(n["inner"][1]["inner"][0]))

    def s_BreakStmt(self, n, ind):
        return [ind + "break;"]

    def s_ContinueStmt(self, n, ind):
        return [ind + "continue;"]

    def s_SwitchStmt(self, n, ind):
        inner = list(n["inner"])
        if n.get("hasInit") or n.get("hasVar"):
            raise Unsupported("switch with init/var")
        c, body = inner[0], inner[-1]
        pre, ce = self.with_pre(lambda: self.E(c))
        out = [ind + "{"] + [ind + "  " + p for p in pre]
        out.append("%s  switch (%s)" % (ind, ce))
        out += self.body(body, ind + "  ")
        out.append(ind + "}")
        return out

    def s_CaseStmt(self, n, ind):
        inner = n["inner"]
        v = self.E(inner[0])
        sub = inner[-1]
        return ["%scase %s:" % (ind, v)] + self.S(sub, ind + "  ")

    def s_DefaultStmt(self, n, ind):
        return [ind + "default:"] + self.S(n["inner"][0], ind + "  ")

    def s_CXXTryStmt(self, n, ind):
        raise Unsupported("try/catch")

    def s_CXXThrowExpr(self, n, ind):
        inner = n.get("inner", [])
        if not inner:
            raise Unsupported("rethrow")
        et = self.ptype(inner[0])
        name = peel(self.tm, et).last if peel(self.tm, et).kind == "named" else "unknown"
        cn = "VF_EXC_" + ident(name)
        self.exc_kinds.add(cn)
        return ["%s{ vf_exc = %s; %s }" % (ind, cn, self.ret_zero())]

    def s_LabelStmt(self, n, ind):
        return ["%s%s:" % (ind, n["name"])] + self.S(n["inner"][0], ind)

    def s_GotoStmt(self, n, ind):
        raise Unsupported("goto")

    def s_AttributedStmt(self, n, ind):
        return self.S(n["inner"][-1], ind)

    # ---------------------------------------------------------------- functions
    def begin_unit(self, unit, ret_ctype, ret_isref):
        self.unit = unit
        self.unit_ret, self.unit_ret_isref = ret_ctype, ret_isref
        self.locals, self.local_names, self.ref_ids, self.used_local_names = set(), {}, set(), {}
        self.pre = []
        self.cn = 0
        self.callflag = False

    def emit_function(self, node, cname, cls_tag, static=False, env_prologue=None):
        """node: FunctionDecl / CXXMethodDecl / CXXConstructorDecl with a body. Returns C text.
        env_prologue (lifted lambdas): callable run after begin_unit; the function then takes `void* __env` as its
        first parameter instead of `self`, and the returned lines (capture unpacking) open its body."""
        self.learn_types(node)
        kind = node["kind"]
        fnt = node["type"]["qualType"]
        t = parse(fnt)
        if kind == "CXXConstructorDecl":
            ret, isref = "void", False
        else:
            ret, isref = self.ret_ctype_from(fnt)
        unit = Unit(cname, node, cls_tag, "lambda" if env_prologue else "func")
        self.begin_unit(unit, ret, isref)
        params = []
        if env_prologue:
            params.append("void* __env")
        elif cls_tag and not static:
            params.append("struct %s* self" % cls_tag)
            self.structs.setdefault(cls_tag, {})
        ptypes = ["struct %s*" % cls_tag] if (cls_tag and not static) else []
        if env_prologue:
            ptypes = ["void*"]
        body = None
        inits = []
        for c in node.get("inner", []):
            k = c.get("kind")
            if k == "ParmVarDecl":
                pt = parse(qt(c))
                pct = self.param_ctype(pt)
                isref_p = pt.kind in ("ref", "rref") and not self.by_value(pt)
                if c.get("name"):
                    name = self.decl_local(c, isref_p)
                else:
                    # unnamed parameter (e.g. of a defaulted copy constructor, whose synthesized body does use it)
                    name = "__unused%d" % len(params)
                    self.local_names[c["id"]] = name
                    self.locals.add(c["id"])
                    if isref_p:
                        self.ref_ids.add(c["id"])
                params.append("%s %s" % (pct, name))
                ptypes.append(pct)
            elif k == "CompoundStmt":
                body = c
            elif k == "CXXCtorInitializer":
                inits.append(c)
        if body is None:
            raise Unsupported("no body for %s" % cname)
        self.note_proto(cname, ret, ptypes, fnt if not cls_tag else "%s::%s %s" % (cls_tag, node.get("name"), fnt))
        lines = []
        if env_prologue:
            lines += ["  " + l for l in env_prologue()]
        for ci in inits:
            lines += self.ctor_init(ci, "  ")
        stop = getattr(self, "stop_at_call", None)
        self.stop_at_call = None  # applies to the unit itself only, not to lambdas lifted from its body
        if stop:
            # unit key "stop_at_call": the top-level statements from the first one that calls <stop> on are NOT
            # translated; they are represented by one call to the callee <cname>__rest(self), whose (assumed) contract
            # the spec must give and the evidence lists. Only for void methods.
            def calls_stop(x):
                k = x.get("kind")
                if k == "MemberExpr" and x.get("name") == stop:
                    return True
                return k == "DeclRefExpr" and (x.get("referencedDecl") or {}).get("name") == stop
            stmts = body.get("inner", [])
            idx = next((i for i, s in enumerate(stmts) if contains(s, calls_stop)), None)
            if idx is None or ret != "void" or not cls_tag or static:
                raise Unsupported("stop_at_call %s: no such call at top level of a void method %s" % (stop, cname))
            body = dict(body)
            body["inner"] = stmts[:idx]
            rest = cname + "__rest"
            self.note_proto(rest, "void", ["struct %s*" % cls_tag], "statements of %s from the call of %s on" % (cname, stop))
            self.callees[rest] = "untranslated tail of %s (from the first top-level statement calling %s)" % (cname, stop)
        blines = self.s_CompoundStmt(body, "")
        if stop:
            blines[-1:] = ["  %s(self);" % rest, "  if (vf_exc) return;", "}"]
        sig = "%s %s(%s)" % (ret, cname, ", ".join(params) if params else "void")
        text = sig + "\n"
        if lines:
            text += "{\n" + "\n".join(lines) + "\n" + "\n".join(blines) + "\n}\n"
        else:
            text += "\n".join(blines) + "\n"
        return sig, text, unit

    def ctor_init(self, ci, ind):
        inner = ci.get("inner", [])
        if "anyInit" in ci:
            f = ci["anyInit"]
            name = f["name"]
            fct_src = f["type"].get("desugaredQualType") or f["type"]["qualType"]
            e = inner[0]
            core = skip(e)
            if core.get("kind") == "CXXDefaultInitExpr" and not core.get("inner"):
                e = self.field_inits.get((self.unit.cls, name))
                if e is None:
                    raise Unsupported("default member initializer of %s.%s not found" % (self.unit.cls, name))
            ft = parse(fct_src)
            if ft.kind in ("ref", "rref"):
                fct = self.tm.c(ft.to) + "*"
                self.field(self.unit.cls, name, fct)
                pre, v = self.with_pre(lambda: self.addr_of(e))
            else:
                fct = self.ctype(fct_src)
                self.field(self.unit.cls, name, fct)
                pre, v = self.with_pre(lambda: self.E(e))
            return [ind + p for p in pre] + ["%sself->%s = %s;" % (ind, name, v)]
        if "baseInit" in ci:
            bt = ci["baseInit"].get("desugaredQualType") or ci["baseInit"]["qualType"]
            pbt = parse(bt)
            if pbt.kind == "named" and pbt.last == "iterator_facade" and "boost::" in (pbt.name or "") and \
                    not [a for a in skip(inner[0]).get("inner", []) if a.get("kind") != "CXXDefaultArgExpr"]:
                # boost::iterator_facade<Derived, ..>: stateless CRTP interface base (operator++ / * / == forward to the
                # derived class's increment / dereference / equal); its default construction does nothing
                self.dropped.append("boost::iterator_facade base construction")
                return []
            btag = self.tm.class_tag_of(pbt)
            self.add_base(self.unit.cls, btag)
            e = skip(inner[0])
            if e.get("kind") != "CXXConstructExpr":
                raise Unsupported("base initialiser")
            fnt = e.get("ctorType", {}).get("qualType")
            # arguments may hoist temporaries (calls evaluated first): emit those statements before the base ctor call
            pre, args = self.with_pre(lambda: self.call_args(e.get("inner", []), self.fn_params_from(fnt)))
            cn = self.fn_cname(btag, "ctor", fnt)
            self.note_proto(cn, "void", ["struct %s*" % btag] + self.param_ctypes_from(fnt), "ctor " + btag + fnt)
            self.callees.setdefault(cn, "%s::%s %s" % (btag, btag, fnt))
            return [ind + p for p in pre] + ["%s%s(%s);" % (ind, cn, ", ".join(["&self->__b_" + btag] + args))]
        raise Unsupported("constructor initialiser form")


class NeedDecl(Exception):
    """the emitter needs the declaration of a method (id, name, class type string) to know its signature"""

    def __init__(self, mid, name, cls):
        super().__init__("need method decl %s of %s" % (name, cls))
        self.mid, self.name, self.cls = mid, name, cls
